#!/bin/bash
# usage: seedarchive.sh <worktree> <prop> <k-in-worktree> <n-in-archive> <status> <detected_by> <failing obligations> [<demo dir>]
WT=$1; PROP=$2; K=$3; N=$4; STATUS=$5; BY=$6; OBL=$7; DIR=${8:-.}
D=/verif/seeded/$PROP-$N
mkdir -p $D
cp $WT/seeded/$K/patch.diff $D/patch.diff
cp $WT/seeded/$K/demo_test.go $D/demo_test.go.txt
cp $WT/seeded/$K/notes.md $D/notes.md 2>/dev/null
python3 - "$D" "$PROP" "$N" "$STATUS" "$BY" "$OBL" "$WT" "$K" "$DIR" <<'PY'
import json,sys
d,prop,n,status,by,obl,wt,k,dr=sys.argv[1:10]
notes=[]
try: notes=open(d+'/notes.md').read().split('\n')[:12]
except Exception: pass
json.dump({"property":prop,"seed":int(n),"source":"independent sub-agent given only the property text and a scratch worktree",
 "needs_to_manifest":notes,
 "demo":"demo_test.go.txt (place as a _test.go file in %s); TestSeededDemo fails with the change, passes without"%dr,
 "confirmed_by":"/verif/seedcheck.sh %s %s %s %s (build ok, baseline tests pass with the change, demo fails with / passes without)"%(wt,prop,k,dr),
 "status":status,"detected_by":by,"failing_obligations":obl},open(d+'/meta.json','w'),indent=1)
PY
echo archived $D
