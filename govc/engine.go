package main

import (
	"fmt"
	"go/ast"
	"go/token"
	"go/types"
	"os"
	"path/filepath"
	"sort"
	"strings"

	"golang.org/x/tools/go/packages"
	"golang.org/x/tools/go/ssa"
	"golang.org/x/tools/go/ssa/ssautil"
)

type footprintT struct {
	keys map[string]string // key -> sort
	old  map[string]bool   // key may be written at a reference that existed before the call / loop iteration
	all  bool
	// with all: struct types none of whose fields are written ("everything except", from the
	// preserves_types frame statements of callees); the explicit keys are written regardless
	except []string
}

func intersectStrs(a, b []string) []string {
	var out []string
	for _, x := range a {
		for _, y := range b {
			if x == y {
				out = append(out, x)
			}
		}
	}
	return out
}

func newFP() *footprintT { return &footprintT{keys: map[string]string{}, old: map[string]bool{}} }

// absorb merges the writes of one instruction (tmp) into fp; existing tells
// whether those writes may hit pre-existing objects.
func (fp *footprintT) absorb(tmp map[string]string, existing bool) {
	for k, s := range tmp {
		fp.keys[k] = s
		if existing {
			fp.old[k] = true
		}
	}
}

func (fp *footprintT) merge(o *footprintT) {
	for k, s := range o.keys {
		fp.keys[k] = s
		if o.old[k] {
			fp.old[k] = true
		}
	}
	if o.all {
		if fp.all {
			fp.except = intersectStrs(fp.except, o.except)
		} else {
			fp.all = true
			fp.except = append([]string(nil), o.except...)
		}
	}
}

// freshScope: when non-nil, only allocations located in these blocks count as fresh
// (loop-relative freshness: an object made before a loop is an existing object for the loop).
var freshScope map[*ssa.BasicBlock]bool

func inFreshScope(i ssa.Instruction) bool {
	return freshScope == nil || freshScope[i.Block()]
}

// valueIsFresh: was the object denoted by v (pointer, slice, map) allocated by this function
// (or, under freshScope, by the loop body)?
func valueIsFresh(v ssa.Value) bool {
	switch x := v.(type) {
	case *ssa.Alloc:
		return inFreshScope(x)
	case *ssa.MakeSlice:
		return inFreshScope(x)
	case *ssa.MakeMap:
		return inFreshScope(x)
	case *ssa.Convert:
		_, ok := x.Type().Underlying().(*types.Slice)
		return ok && inFreshScope(x)
	case *ssa.Call:
		if b, ok := x.Call.Value.(*ssa.Builtin); ok && b.Name() == "append" {
			return inFreshScope(x)
		}
	case *ssa.Slice:
		if _, ok := x.X.Type().Underlying().(*types.Pointer); ok {
			return addrIsFresh(x.X)
		}
		return valueIsFresh(x.X)
	case *ssa.ChangeType:
		return valueIsFresh(x.X)
	}
	return false
}

func addrIsFresh(v ssa.Value) bool {
	switch x := v.(type) {
	case *ssa.Alloc:
		return inFreshScope(x)
	case *ssa.FieldAddr:
		return addrIsFresh(x.X)
	case *ssa.IndexAddr:
		if _, ok := x.X.Type().Underlying().(*types.Pointer); ok {
			return addrIsFresh(x.X)
		}
		return valueIsFresh(x.X)
	}
	return false
}

type fpBool struct {
	keys map[string]bool
	all  bool
}

type Engine struct {
	// the property being checked ("" in dump mode): a clause tagged for other properties only is neither
	// checked nor assumed in this run
	curProp   string
	repo      string
	verifDir  string
	fset      *token.FileSet
	prog      *ssa.Program
	pkgs      []*packages.Package
	ssaPkgs   []*ssa.Package
	contracts *ContractSet
	spec      *SpecLib
	srcCache  map[string][]byte
	debug     bool
	strictLen bool

	fpCache   map[string]*footprintT
	fpBusy    map[*ssa.Function]bool
	fpStack   []*ssa.Function
	fpTaint   map[*ssa.Function]bool
	fpTemp    map[string]*footprintT
	softCache map[*ssa.Function]int
	recCache  map[*ssa.Function]int

	concreteTypes []types.Type

	allocHook func(e *Exec, st *State, x ssa.Instruction, l, c string)
	tmRecv    func(e *Exec, st *State, x *ssa.UnOp) bool
	tmSend    func(e *Exec, st *State, x *ssa.Send)
	tmGo      func(e *Exec, st *State, x *ssa.Go)
	tmSelect  func(e *Exec, st *State, x *ssa.Select, idx string)
	tmClose   func(e *Exec, st *State, cc *ssa.CallCommon, args []Val)
	tmInvoke  func(e *Exec, st *State, cc *ssa.CallCommon, fv Val, args []Val, dst ssa.Value) bool
	scenarioErrList []string // scenario types that did not resolve (reported as contract mismatches)
	tmAtomic  func(e *Exec, st *State, name string, cc *ssa.CallCommon, args []Val, dst ssa.Value) bool
	tmLock    func(e *Exec, st *State, name string, cc *ssa.CallCommon, args []Val)

	boundaries map[string]bool
	repoPkgs   map[*types.Package]bool
}

func loadEngine(repo, verifDir string) (*Engine, error) {
	eng := &Engine{repo: repo, verifDir: verifDir, srcCache: map[string][]byte{}, fpCache: map[string]*footprintT{}, fpBusy: map[*ssa.Function]bool{}, fpTaint: map[*ssa.Function]bool{},
		softCache: map[*ssa.Function]int{}, recCache: map[*ssa.Function]int{}, boundaries: map[string]bool{}, repoPkgs: map[*types.Package]bool{}}
	eng.fset = token.NewFileSet()
	env := append(os.Environ(), "GOFLAGS=-mod=mod", "GOPROXY=off", "GOSUMDB=off", "GOTOOLCHAIN=local", "GOWORK=off")
	var all []*packages.Package
	for _, dir := range []string{repo, filepath.Join(repo, "lz4")} {
		if _, err := os.Stat(filepath.Join(dir, "go.mod")); err != nil {
			continue
		}
		cfg := &packages.Config{Mode: packages.LoadAllSyntax, Dir: dir, Fset: eng.fset, Env: env}
		pats := []string{"."}
		if dir == repo {
			pats = []string{".", "./internal/lru", "./internal/murmur", "./internal/streams"}
		}
		pkgs, err := packages.Load(cfg, pats...)
		if err != nil {
			return nil, err
		}
		for _, p := range pkgs {
			if len(p.Errors) > 0 {
				return nil, fmt.Errorf("package %s: %v", p.PkgPath, p.Errors[0])
			}
		}
		all = append(all, pkgs...)
	}
	eng.pkgs = all
	prog, spkgs := ssautil.AllPackages(all, ssa.GlobalDebug|ssa.InstantiateGenerics)
	prog.Build()
	eng.prog = prog
	eng.ssaPkgs = spkgs
	for _, p := range all {
		eng.repoPkgs[p.Types] = true
	}
	cs, err := loadContracts(repo, func(dir string) string {
		for _, p := range all {
			if len(p.GoFiles) > 0 && filepath.Dir(p.GoFiles[0]) == dir {
				return p.PkgPath
			}
		}
		return dir
	})
	if err != nil {
		return nil, err
	}
	eng.contracts = cs
	lib, err := loadSpecLib(filepath.Join(verifDir, "spec"))
	if err != nil {
		return nil, err
	}
	eng.spec = lib
	// concrete named types of the repository (for interface-implementation axioms)
	for _, p := range all {
		sc := p.Types.Scope()
		for _, n := range sc.Names() {
			if tn, ok := sc.Lookup(n).(*types.TypeName); ok && !tn.IsAlias() {
				t := tn.Type()
				if _, isI := t.Underlying().(*types.Interface); isI {
					continue
				}
				if nt, ok := t.(*types.Named); ok && nt.TypeParams() != nil && nt.TypeParams().Len() > 0 {
					continue
				}
				eng.concreteTypes = append(eng.concreteTypes, t, types.NewPointer(t))
			}
		}
	}
	return eng, nil
}

func (eng *Engine) inRepo(f *ssa.Function) bool {
	if f == nil {
		return false
	}
	p := f.Pkg
	if p == nil {
		if par := f.Parent(); par != nil {
			return eng.inRepo(par)
		}
		if f.Origin() != nil {
			return eng.inRepo(f.Origin())
		}
		return false
	}
	return eng.repoPkgs[p.Pkg]
}

func (eng *Engine) posString(p token.Pos) string {
	if !p.IsValid() {
		return ""
	}
	pp := eng.fset.Position(p)
	rel, err := filepath.Rel(eng.repo, pp.Filename)
	if err != nil {
		rel = pp.Filename
	}
	return fmt.Sprintf("%s:%d", rel, pp.Line)
}

// srcAt returns the source text of the smallest expression starting at pos.
func (eng *Engine) srcAt(p token.Pos) string {
	if !p.IsValid() {
		return ""
	}
	pp := eng.fset.Position(p)
	for _, pkg := range eng.pkgs {
		for i, f := range pkg.Syntax {
			if i >= len(pkg.CompiledGoFiles) || pkg.CompiledGoFiles[i] != pp.Filename {
				continue
			}
			var best ast.Node
			ast.Inspect(f, func(n ast.Node) bool {
				if n == nil {
					return false
				}
				if n.Pos() > p || n.End() <= p {
					return false
				}
				if _, ok := n.(ast.Expr); ok {
					// the operator position of binary/index/slice/call expressions is inside the node
					switch x := n.(type) {
					case *ast.BinaryExpr:
						if x.OpPos == p {
							best = n
						}
					case *ast.IndexExpr:
						if x.Lbrack == p {
							best = n
						}
					case *ast.SliceExpr:
						if x.Lbrack == p {
							best = n
						}
					case *ast.CallExpr:
						if x.Lparen == p {
							best = n
						}
					case *ast.TypeAssertExpr:
						if x.Lparen == p {
							best = n
						}
					case *ast.SelectorExpr:
						if x.Sel.Pos() == p {
							best = n
						}
					}
					if n.Pos() == p && (best == nil || n.End() > best.End()) {
						if best == nil || best.Pos() == p {
							best = n
						}
					}
				}
				return true
			})
			if best == nil {
				return ""
			}
			src := eng.src(pp.Filename)
			a, b := eng.fset.Position(best.Pos()).Offset, eng.fset.Position(best.End()).Offset
			if a >= 0 && b <= len(src) && a < b {
				return strings.Join(strings.Fields(string(src[a:b])), "")
			}
		}
	}
	return ""
}

func (eng *Engine) src(file string) []byte {
	if b, ok := eng.srcCache[file]; ok {
		return b
	}
	b, _ := os.ReadFile(file)
	eng.srcCache[file] = b
	return b
}

// ---------- contracts lookup ----------

func (eng *Engine) fnKey(f *ssa.Function) (string, string) {
	pkg := f.Pkg
	root := f
	for pkg == nil && root.Parent() != nil {
		root = root.Parent()
		pkg = root.Pkg
	}
	if pkg == nil {
		return "", ""
	}
	rel := f.RelString(pkg.Pkg)
	return pkg.Pkg.Path(), rel
}

func (eng *Engine) contractFor(f *ssa.Function) *FuncContract {
	p, k := eng.fnKey(f)
	if p == "" {
		return nil
	}
	return eng.contracts.Funcs[p+"::"+k]
}

func (eng *Engine) ifaceContract(cc *ssa.CallCommon) *FuncContract {
	m := cc.Method
	if m.Pkg() == nil {
		return nil
	}
	recv := cc.Value.Type()
	name := ""
	if n, ok := recv.(*types.Named); ok {
		name = n.Obj().Name()
		if n.Obj().Pkg() != nil && !eng.repoPkgs[n.Obj().Pkg()] {
			name = n.Obj().Pkg().Name() + "." + name
		}
	}
	if name == "" {
		return nil
	}
	for _, p := range eng.pkgs {
		if c := eng.contracts.Funcs[p.PkgPath+"::("+name+")."+m.Name()]; c != nil {
			return c
		}
	}
	return nil
}

// lookupFunc finds the ssa function for a contract key in a package.
func (eng *Engine) lookupFunc(pkgPath, key string) *ssa.Function {
	for _, sp := range eng.ssaPkgs {
		if sp == nil || sp.Pkg.Path() != pkgPath {
			continue
		}
		var found *ssa.Function
		var visit func(f *ssa.Function)
		visit = func(f *ssa.Function) {
			if f.RelString(sp.Pkg) == key {
				found = f
			}
			for _, a := range f.AnonFuncs {
				visit(a)
			}
		}
		for _, m := range sp.Members {
			switch x := m.(type) {
			case *ssa.Function:
				visit(x)
			case *ssa.Type:
				for _, t := range []types.Type{x.Type(), types.NewPointer(x.Type())} {
					ms := eng.prog.MethodSets.MethodSet(t)
					for i := 0; i < ms.Len(); i++ {
						if f := eng.prog.MethodValue(ms.At(i)); f != nil && f.Synthetic == "" {
							visit(f)
						}
					}
				}
			}
		}
		if found != nil {
			return found
		}
	}
	return nil
}

func (eng *Engine) boundary(f *ssa.Function) bool {
	_, k := eng.fnKey(f)
	return eng.boundaries[k]
}

// ---------- static analyses: footprints, soft panics, recursion ----------

func (eng *Engine) structHeapKeys(sc *Script, t types.Type, out map[string]string) {
	u, ok := t.Underlying().(*types.Struct)
	if !ok {
		return
	}
	for i := 0; i < u.NumFields(); i++ {
		out["H|"+structKey(t)+"|"+u.Field(i).Name()] = fmt.Sprintf("(Array Int %s)", sc.sortOf(u.Field(i).Type()))
	}
}

// ptrRootKeys: memory keys a store through pointer value p may write.
func (eng *Engine) ptrRootKeys(p ssa.Value, sc *Script, fn *ssa.Function, out map[string]string) {
	switch x := p.(type) {
	case *ssa.FieldAddr:
		switch x.X.(type) {
		case *ssa.FieldAddr, *ssa.IndexAddr:
			eng.ptrRootKeys(x.X, sc, fn, out)
			return
		case *ssa.Alloc:
			a := x.X.(*ssa.Alloc)
			if !escapes(a) {
				out[fmt.Sprintf("L|%s.%s", a.Parent().Name(), a.Name())] = sc.sortOf(a.Type().(*types.Pointer).Elem())
				return
			}
		}
		stt := x.X.Type().Underlying().(*types.Pointer).Elem()
		f := stt.Underlying().(*types.Struct).Field(x.Field)
		out["H|"+structKey(stt)+"|"+f.Name()] = fmt.Sprintf("(Array Int %s)", sc.sortOf(f.Type()))
	case *ssa.IndexAddr:
		switch u := x.X.Type().Underlying().(type) {
		case *types.Slice:
			es := sc.sortOf(u.Elem())
			out["A|"+sortTag(es)] = fmt.Sprintf("(Array Int (Array %s %s))", sc.idx(), es)
		case *types.Pointer:
			eng.ptrRootKeys(x.X, sc, fn, out)
		}
	case *ssa.Alloc:
		el := x.Type().(*types.Pointer).Elem()
		if !escapes(x) {
			out[fmt.Sprintf("L|%s.%s", x.Parent().Name(), x.Name())] = sc.sortOf(el)
			return
		}
		eng.pointeeKeys(el, sc, out)
	case *ssa.Global:
		el := x.Type().(*types.Pointer).Elem()
		out["G|"+x.String()] = sc.sortOf(el)
	default:
		if pt, ok := p.Type().Underlying().(*types.Pointer); ok {
			eng.pointeeKeys(pt.Elem(), sc, out)
		}
	}
}

func (eng *Engine) pointeeKeys(el types.Type, sc *Script, out map[string]string) {
	if _, ok := el.Underlying().(*types.Struct); ok {
		eng.structHeapKeys(sc, el, out)
		return
	}
	if arr, ok := el.Underlying().(*types.Array); ok {
		es := sc.sortOf(arr.Elem())
		out["A|"+sortTag(es)] = fmt.Sprintf("(Array Int (Array %s %s))", sc.idx(), es)
		return
	}
	srt := sc.sortOf(el)
	out["M|"+sortTag(srt)] = fmt.Sprintf("(Array Int %s)", srt)
}

func (eng *Engine) mapKeysOf(mt *types.Map, sc *Script, out map[string]string) {
	ks := sc.sortOf(mt.Key())
	if isString(mt.Key()) {
		ks = "Int"
	}
	vs := sc.sortOf(mt.Elem())
	tag := sortTag(ks) + "|" + sortTag(vs)
	out["MD|"+tag] = fmt.Sprintf("(Array Int (Array %s Bool))", ks)
	out["MV|"+tag] = fmt.Sprintf("(Array Int (Array %s %s))", ks, vs)
	out["MN"] = fmt.Sprintf("(Array Int %s)", sc.idx())
}

func mapKeySort(sc *Script, mt *types.Map) string {
	if isString(mt.Key()) {
		return "Int"
	}
	return sc.sortOf(mt.Key())
}

// instrWrites: keys one instruction may write (calls: callee footprint).
func (eng *Engine) instrWrites(ins ssa.Instruction, sc *Script, fn *ssa.Function) *footprintT {
	fp := newFP()
	tmp := map[string]string{}
	switch x := ins.(type) {
	case *ssa.Store:
		eng.ptrRootKeys(x.Addr, sc, fn, tmp)
		fp.absorb(tmp, !addrIsFresh(x.Addr))
	case *ssa.MapUpdate:
		eng.mapKeysOf(x.Map.Type().Underlying().(*types.Map), sc, tmp)
		fp.absorb(tmp, !valueIsFresh(x.Map))
	case *ssa.Next:
		r := x.Iter.(*ssa.Range)
		if x.IsString {
			tmp["IT|"+fn.Name()+"."+r.Name()] = sc.idx()
			fp.absorb(tmp, true)
		} else if mt, ok := r.X.Type().Underlying().(*types.Map); ok {
			tmp["IT|N:"+fn.Name()+"."+r.Name()] = sc.idx()
			tmp["IT|V:"+fn.Name()+"."+r.Name()] = fmt.Sprintf("(Array %s Bool)", mapKeySort(sc, mt))
			fp.absorb(tmp, true)
		}
	case *ssa.Range:
		if isString(x.X.Type()) {
			tmp["IT|"+fn.Name()+"."+x.Name()] = sc.idx()
			fp.absorb(tmp, true)
		} else if mt, ok := x.X.Type().Underlying().(*types.Map); ok {
			tmp["IT|N:"+fn.Name()+"."+x.Name()] = sc.idx()
			tmp["IT|V:"+fn.Name()+"."+x.Name()] = fmt.Sprintf("(Array %s Bool)", mapKeySort(sc, mt))
			fp.absorb(tmp, true)
		}
	case *ssa.Alloc:
		el := x.Type().(*types.Pointer).Elem()
		if !escapes(x) {
			tmp[fmt.Sprintf("L|%s.%s", fn.Name(), x.Name())] = sc.sortOf(el)
			fp.absorb(tmp, true)
		} else {
			eng.pointeeKeys(el, sc, tmp)
			fp.absorb(tmp, false)
		}
	case *ssa.MakeSlice:
		es := sc.sortOf(x.Type().Underlying().(*types.Slice).Elem())
		tmp["A|"+sortTag(es)] = fmt.Sprintf("(Array Int (Array %s %s))", sc.idx(), es)
		fp.absorb(tmp, false)
	case *ssa.MakeMap:
		eng.mapKeysOf(x.Type().Underlying().(*types.Map), sc, tmp)
		fp.absorb(tmp, false)
	case *ssa.Convert:
		if sl, ok := x.Type().Underlying().(*types.Slice); ok {
			es := sc.sortOf(sl.Elem())
			tmp["A|"+sortTag(es)] = fmt.Sprintf("(Array Int (Array %s %s))", sc.idx(), es)
			fp.absorb(tmp, false)
		}
	case *ssa.Slice:
		if pt, ok := x.X.Type().Underlying().(*types.Pointer); ok {
			es := sc.sortOf(pt.Elem().Underlying().(*types.Array).Elem())
			tmp["A|"+sortTag(es)] = fmt.Sprintf("(Array Int (Array %s %s))", sc.idx(), es)
			fp.absorb(tmp, false)
		}
	case ssa.CallInstruction:
		cc := x.Common()
		eng.callWrites(cc, sc, fn, fp)
	case *ssa.RunDefers:
		// deferred calls of this function
		for _, b := range fn.Blocks {
			for _, i2 := range b.Instrs {
				if d, ok := i2.(*ssa.Defer); ok {
					eng.callWrites(&d.Call, sc, fn, fp)
				}
			}
		}
	}
	return fp
}

func (eng *Engine) callWrites(cc *ssa.CallCommon, sc *Script, fn *ssa.Function, fp *footprintT) {
	tmp := map[string]string{}
	if b, ok := cc.Value.(*ssa.Builtin); ok {
		switch b.Name() {
		case "append":
			if sl, ok := cc.Args[0].Type().Underlying().(*types.Slice); ok {
				es := sc.sortOf(sl.Elem())
				tmp["A|"+sortTag(es)] = fmt.Sprintf("(Array Int (Array %s %s))", sc.idx(), es)
				fp.absorb(tmp, false) // the model of append writes a fresh backing array only
			}
		case "copy":
			if sl, ok := cc.Args[0].Type().Underlying().(*types.Slice); ok {
				es := sc.sortOf(sl.Elem())
				tmp["A|"+sortTag(es)] = fmt.Sprintf("(Array Int (Array %s %s))", sc.idx(), es)
				fp.absorb(tmp, !valueIsFresh(cc.Args[0]))
			}
		case "delete":
			eng.mapKeysOf(cc.Args[0].Type().Underlying().(*types.Map), sc, tmp)
			fp.absorb(tmp, !valueIsFresh(cc.Args[0]))
		}
		return
	}
	if cc.IsInvoke() {
		fp.merge(eng.invokeFootprint(cc, sc))
		eng.argWrites(cc, sc, fp)
		return
	}
	callee := cc.StaticCallee()
	if callee == nil {
		if mc, ok := cc.Value.(*ssa.MakeClosure); ok {
			callee = mc.Fn.(*ssa.Function)
		}
	}
	if callee == nil {
		eng.argWrites(cc, sc, fp)
		return
	}
	if !eng.inRepo(callee) {
		if !pureExternal(callee) {
			eng.argWrites(cc, sc, fp)
		}
		return
	}
	// a callee under contract: `modifies nothing` means no writes at all; `preserves_types` removes
	// the fields of those struct types from what it may write (its frame statement, checked when the
	// callee is verified or trusted as stated)
	cfp := eng.footprint(callee, sc)
	if cc0 := eng.contractFor(callee); cc0 != nil {
		if cc0.HasMod && len(cc0.Modifies) == 0 {
			return
		}
		if pt, ok := cc0.Flags["preserves_types"]; ok {
			filtered := newFP()
			filtered.all = false
			for k, srt := range cfp.keys {
				keep := false
				if strings.HasPrefix(k, "H|") {
					parts := strings.Split(k, "|")
					for _, t := range strings.Fields(pt) {
						if len(parts) >= 3 && (parts[1] == t || strings.HasSuffix(parts[1], "."+t)) {
							keep = true
						}
					}
				}
				if !keep {
					filtered.keys[k] = srt
					if cfp.old[k] {
						filtered.old[k] = true
					}
				}
			}
			if cfp.all {
				// "everything" minus the preserved types (and minus what the callee's own callees preserve)
				filtered.all = true
				filtered.except = append(append([]string(nil), cfp.except...), strings.Fields(pt)...)
			}
			cfp = filtered
		}
	}
	fp.merge(cfp)
	// interior pointers (&x.f, &a[i], &local) handed to the callee: its footprint names the pointee
	// by the pointee's own type, while the caller stores it inside another object - what the callee
	// writes through such an argument is a write to the caller-side storage
	for _, a := range cc.Args {
		if _, ok := a.Type().Underlying().(*types.Pointer); !ok {
			continue
		}
		switch a.(type) {
		case *ssa.FieldAddr, *ssa.IndexAddr, *ssa.Alloc:
			tmp := map[string]string{}
			eng.ptrRootKeys(a, sc, fn, tmp)
			fp.absorb(tmp, !addrIsFresh(a))
		}
	}
}

func pureExternal(f *ssa.Function) bool {
	n := f.String()
	for _, p := range []string{"fmt.Errorf", "fmt.Sprintf", "fmt.Sprint", "errors.New", "strconv.", "strings.", "math.", "math/bits.", "time.Now", "time.Since", "(time.Time).", "(time.Duration).", "unicode", "(net.IP).", "net.ParseIP", "bytes.Equal", "bytes.Compare", "(*math/big.Int).Cmp", "(*math/big.Int).Sign", "(*math/big.Int).BitLen", "(*math/big.Int).Int64", "(*math/big.Int).Uint64", "(*math/big.Int).IsInt64", "(*math/big.Int).String", "reflect.TypeOf", "reflect.ValueOf", "(reflect.Value).Kind", "(reflect.Value).Len", "(reflect.Value).Int", "(reflect.Value).Uint", "(reflect.Value).IsNil", "(reflect.Value).Type", "(reflect.Value).Elem", "(reflect.Value).Index", "(*reflect.rtype)", "encoding/binary.", "(encoding/binary.bigEndian).Uint", "(encoding/binary.littleEndian).Uint", "sync/atomic.Load", "(*sync.Mutex)", "(*sync.RWMutex)", "context.", "log.", "(*log.Logger)"} {
		if strings.HasPrefix(n, p) {
			return true
		}
	}
	return false
}

func (eng *Engine) argWrites(cc *ssa.CallCommon, sc *Script, fp *footprintT) {
	for _, a := range cc.Args {
		tmp := map[string]string{}
		switch u := a.Type().Underlying().(type) {
		case *types.Pointer:
			eng.ptrRootKeys(a, sc, nil, tmp)
			fp.absorb(tmp, !addrIsFresh(a) && !valueIsFresh(a))
		case *types.Slice:
			es := sc.sortOf(u.Elem())
			tmp["A|"+sortTag(es)] = fmt.Sprintf("(Array Int (Array %s %s))", sc.idx(), es)
			fp.absorb(tmp, !valueIsFresh(a))
		case *types.Map:
			eng.mapKeysOf(u, sc, tmp)
			fp.absorb(tmp, !valueIsFresh(a))
		}
	}
}

func (eng *Engine) footprint(f *ssa.Function, sc *Script) *footprintT {
	ck := f.String() + "/" + sc.mode.String()
	if fp, ok := eng.fpCache[ck]; ok {
		return fp
	}
	if eng.fpBusy[f] {
		// recursion: the cycle is cut here. Everything computed between f and the top of the
		// stack now lacks what is reachable through f, so those results must not be cached
		// (f itself, the head of the cycle, is complete: it unions the whole traversal).
		for i := len(eng.fpStack) - 1; i >= 0 && eng.fpStack[i] != f; i-- {
			eng.fpTaint[eng.fpStack[i]] = true
		}
		return newFP()
	}
	// results computed (uncached) earlier in the same outermost traversal
	if fp, ok := eng.fpTemp[ck]; ok {
		// a temporary result may lack what is reachable through functions that were busy then:
		// whoever uses it is not cacheable either (the outermost root still unions everything)
		for i := len(eng.fpStack) - 1; i >= 1; i-- {
			eng.fpTaint[eng.fpStack[i]] = true
		}
		return fp
	}
	eng.fpBusy[f] = true
	eng.fpStack = append(eng.fpStack, f)
	saved := freshScope
	freshScope = nil // callee-relative freshness inside the callee
	defer func() { freshScope = saved }()
	fp := newFP()
	for _, b := range f.Blocks {
		for _, ins := range b.Instrs {
			w := eng.instrWrites(ins, sc, f)
			for k := range w.keys {
				if strings.HasPrefix(k, "L|") || strings.HasPrefix(k, "IT|") {
					delete(w.keys, k)
				}
			}
			fp.merge(w)
		}
	}
	delete(eng.fpBusy, f)
	eng.fpStack = eng.fpStack[:len(eng.fpStack)-1]
	if eng.fpTaint[f] && len(eng.fpStack) > 0 {
		delete(eng.fpTaint, f)
		if eng.fpTemp == nil {
			eng.fpTemp = map[string]*footprintT{}
		}
		eng.fpTemp[ck] = fp
		return fp
	}
	delete(eng.fpTaint, f)
	if len(eng.fpStack) == 0 {
		eng.fpTemp = nil
	}
	eng.fpCache[ck] = fp
	return fp
}

func (eng *Engine) invokeFootprint(cc *ssa.CallCommon, sc *Script) *footprintT {
	fp := newFP()
	it, ok := cc.Value.Type().Underlying().(*types.Interface)
	if !ok {
		return fp
	}
	for _, ct := range eng.concreteTypes {
		if !types.Implements(ct, it) {
			continue
		}
		ms := eng.prog.MethodSets.MethodSet(ct)
		sel := ms.Lookup(cc.Method.Pkg(), cc.Method.Name())
		if sel == nil {
			continue
		}
		if f := eng.prog.MethodValue(sel); f != nil && len(f.Blocks) > 0 {
			fp.merge(eng.footprint(f, sc))
		}
	}
	return fp
}

// maySoftPanic: does f (transitively, through static calls) contain a panic(error)?
func (eng *Engine) maySoftPanic(f *ssa.Function) bool {
	if v, ok := eng.softCache[f]; ok {
		return v == 1
	}
	eng.softCache[f] = 0
	res := false
	if f.Recover != nil {
		// recovering functions convert soft panics into errors
		eng.softCache[f] = 0
		return false
	}
	for _, b := range f.Blocks {
		for _, ins := range b.Instrs {
			switch x := ins.(type) {
			case *ssa.Panic:
				var src ssa.Value = x.X
				for {
					if ci, ok := src.(*ssa.ChangeInterface); ok {
						if types.Implements(ci.X.Type(), errorIface) {
							res = true
						}
						src = ci.X
						continue
					}
					if mi, ok := src.(*ssa.MakeInterface); ok && types.Implements(mi.X.Type(), errorIface) {
						res = true
					}
					break
				}
			case *ssa.Call:
				if c := x.Call.StaticCallee(); c != nil && eng.inRepo(c) {
					if fc := eng.contractFor(c); fc != nil {
						for _, cl := range fc.Ensures {
							if strings.Contains(cl.Expr, "panics()") || strings.Contains(cl.Expr, "soft_panic()") {
								res = true
							}
						}
						if _, ok := fc.Flags["may_soft_panic"]; ok {
							res = true
						}
						if !fc.Trusted {
							if eng.maySoftPanic(c) {
								res = true
							}
						}
					} else if eng.maySoftPanic(c) {
						res = true
					}
				}
			}
		}
	}
	if res {
		eng.softCache[f] = 1
	}
	return res
}

func (eng *Engine) isRecursive(f *ssa.Function) bool {
	if v, ok := eng.recCache[f]; ok {
		return v == 1
	}
	// DFS over static callees within the repo
	seen := map[*ssa.Function]bool{}
	var dfs func(g *ssa.Function, depth int) bool
	dfs = func(g *ssa.Function, depth int) bool {
		if depth > 12 {
			return false
		}
		for _, b := range g.Blocks {
			for _, ins := range b.Instrs {
				if c, ok := ins.(ssa.CallInstruction); ok {
					cal := c.Common().StaticCallee()
					if cal == nil || !eng.inRepo(cal) {
						continue
					}
					if cal == f {
						return true
					}
					if !seen[cal] {
						seen[cal] = true
						if dfs(cal, depth+1) {
							return true
						}
					}
				}
			}
		}
		return false
	}
	r := dfs(f, 0)
	if r {
		eng.recCache[f] = 1
	} else {
		eng.recCache[f] = 0
	}
	return r
}

func sortedFuncs(m map[*ssa.Function]bool) []*ssa.Function {
	var out []*ssa.Function
	for f := range m {
		out = append(out, f)
	}
	sort.Slice(out, func(i, j int) bool { return out[i].String() < out[j].String() })
	return out
}
