package main

import (
	"fmt"
	"os"
	"path/filepath"
	"sort"
	"strings"
)

type oblRecord struct {
	Name    string  `json:"name"`
	Kind    string  `json:"kind"`
	Pos     string  `json:"pos,omitempty"`
	Status  string  `json:"status"`
	Solver  string  `json:"solver,omitempty"`
	Seconds float64 `json:"seconds"`
}

type Report struct {
	eng        *Engine
	prop       string
	tier       string
	seed       int
	vd         string
	loadS      float64
	wall       float64
	missing    []string
	engineErrs []string
	results    []*FuncResult

	records    []oblRecord
	discharged int
	total      int
	undecided  []string
	violations []string
	known      []string
	vacuous    []string
	siteUnknown int // site covers the solver did not decide within the first stage (not fatal)
	byBackend  map[string]int
	solverTime float64
	coverOK    int
	canaryOK   int
	canaryBad  []string
	lines      []string
	newDisch   []string
	boundedRes []boundedResult
}

// bounded records the results of the bounded stand-ins (never counted as discharged).
func (r *Report) bounded(res []boundedResult) {
	r.boundedRes = res
	for _, b := range res {
		if b.OK {
			r.say("BOUNDED: %s %s (bounded check, not a proof)", b.Name, b.Detail)
			continue
		}
		path := filepath.Join(r.vd, "replay", r.prop, sanitize(b.Name)+".bounded.txt")
		os.MkdirAll(filepath.Dir(path), 0755)
		os.WriteFile(path, []byte("bounded check failed on the real code: "+b.Name+" "+b.Detail+"\n"), 0644)
		r.say("VIOLATION property=%s replay=%s obligation=bounded:%s %s", r.prop, path, b.Name, b.Detail)
		r.violations = append(r.violations, "bounded:"+b.Name)
	}
}

func newReport(eng *Engine, prop, tier string, seed int, vd string) *Report {
	return &Report{eng: eng, prop: prop, tier: tier, seed: seed, vd: vd, byBackend: map[string]int{}}
}

func (r *Report) say(format string, a ...interface{}) {
	l := fmt.Sprintf(format, a...)
	fmt.Println(l)
	r.lines = append(r.lines, l)
}

func (r *Report) classify(obls, covers, canaries []*Obligation, res map[*Obligation]SolveResult, verbose bool) {
	var kf []KnownFinding
	readJSON(filepath.Join(r.vd, "known_findings.json"), &kf)
	var bl Baseline
	readJSON(filepath.Join(r.vd, "baseline.json"), &bl)
	known := map[string]KnownFinding{}
	for _, k := range kf {
		if k.Property == r.prop && k.Status == "open" {
			known[k.Obligation] = k
		}
	}
	undec := bl.Undecided[r.prop]
	expected := map[string]bool{}
	for _, n := range bl.Expected[r.prop] {
		expected[n] = true
	}
	sort.Slice(obls, func(i, j int) bool { return obls[i].Name < obls[j].Name })
	for _, o := range obls {
		s := res[o]
		r.solverTime += s.Seconds
		rec := oblRecord{Name: o.Name, Kind: o.Kind, Pos: o.Pos, Status: s.Status, Solver: s.Solver, Seconds: s.Seconds}
		if s.Status == "unsat" {
			r.byBackend[s.Solver]++
			if _, isU := undec[o.Name]; isU {
				// discharged although listed as undecided: fine, count it
			}
			if k, isK := known[o.Name]; isK {
				// a known finding that no longer fails: report, do not hide
				r.say("NOTE: known finding %s (%s) is now discharged", o.Name, k.What)
			}
			r.discharged++
			r.total++
			if !expected[o.Name] {
				r.newDisch = append(r.newDisch, o.Name)
			}
			r.records = append(r.records, rec)
			continue
		}
		if k, isK := known[o.Name]; isK {
			r.say("KNOWN-FINDING: property=%s %s: %s", r.prop, o.Name, k.What)
			r.known = append(r.known, o.Name)
			rec.Status = "known-finding(" + s.Status + ")"
			r.records = append(r.records, rec)
			continue
		}
		if reason, isU := undec[o.Name]; isU {
			r.undecided = append(r.undecided, o.Name+": "+reason)
			rec.Status = "undecided(" + s.Status + ")"
			r.records = append(r.records, rec)
			continue
		}
		// violation
		r.total++
		r.records = append(r.records, rec)
		var ro replayOutcome
		if s.Status == "sat" {
			if fr := r.resultOf(o); fr != nil {
				ro = r.replayObligation(o, fr)
			}
		} else {
			ro.Reason = "the solver gave no model (" + s.Status + ")"
		}
		path := r.writeReplay(o, s, ro)
		suffix := ""
		if !ro.Confirmed {
			suffix = " no-failing-input-found"
		}
		r.say("VIOLATION property=%s replay=%s obligation=%s status=%s%s", r.prop, path, o.Name, s.Status, suffix)
		r.violations = append(r.violations, o.Name)
		if verbose && s.Status == "sat" {
			for _, k := range sortedKeys(s.Model) {
				fmt.Printf("    %s = %s\n", k, s.Model[k])
			}
		}
	}
	groupAll := map[string]int{}
	groupDead := map[string]int{}
	for _, o := range covers {
		s := res[o]
		r.solverTime += s.Seconds
		if o.Group != "" {
			groupAll[o.Group]++
			if s.Status == "unsat" {
				groupDead[o.Group]++
			} else if s.Status != "sat" {
				r.siteUnknown++
			} else {
				r.coverOK++
			}
			continue
		}
		switch s.Status {
		case "sat":
			r.coverOK++
		case "unsat":
			r.vacuous = append(r.vacuous, o.Name)
			if o.Site {
				r.say("VACUOUS: %s: the call site is unreachable under the contracts (every clause about it holds trivially)", o.Name)
			} else {
				r.say("VACUOUS: %s: assumptions are contradictory", o.Name)
			}
		default:
			if o.Site {
				r.siteUnknown++
				continue
			}
			// quantified assumptions: satisfiability not decided; reported, not fatal
			r.undecided = append(r.undecided, o.Name+": cover "+s.Status)
		}
	}
	for _, g := range sortedKeys(groupAll) {
		if groupDead[g] == groupAll[g] {
			r.vacuous = append(r.vacuous, g)
			r.say("VACUOUS: %s: no call site / return the clause applies to is reachable under the contracts", g)
		}
	}
	for _, o := range canaries {
		s := res[o]
		r.solverTime += s.Seconds
		if s.Status == "unsat" {
			r.canaryBad = append(r.canaryBad, o.Name)
			r.say("VACUOUS: canary %s was discharged (it is false by construction)", o.Name)
		} else {
			r.canaryOK++
		}
	}
	for _, m := range r.missing {
		path := filepath.Join(r.vd, "replay", r.prop, sanitize(m)+".txt")
		os.MkdirAll(filepath.Dir(path), 0755)
		os.WriteFile(path, []byte("function under contract not found in /repo: "+m+"\n"), 0644)
		r.say("VIOLATION property=%s replay=%s obligation=%s#exists status=missing-function no-failing-input-found", r.prop, path, m)
		r.violations = append(r.violations, m+"#exists")
		r.total++
	}
	for i, e := range r.engineErrs {
		// a contract that can no longer be evaluated against the code (a variable,
		// loop, field or ghost it mentions has disappeared) means the function changed
		// in a way the proof does not cover: reported as a violation of the property,
		// never as success
		path := filepath.Join(r.vd, "replay", r.prop, fmt.Sprintf("contract-mismatch-%d.txt", i))
		os.MkdirAll(filepath.Dir(path), 0755)
		os.WriteFile(path, []byte("the contract could not be applied to the current code:\n"+e+"\n"), 0644)
		r.say("CONTRACT-MISMATCH: %s", e)
		r.say("VIOLATION property=%s replay=%s obligation=contract-applies#%d status=contract-mismatch no-failing-input-found", r.prop, path, i)
		r.violations = append(r.violations, fmt.Sprintf("contract-applies#%d", i))
		r.total++
	}
	// expected obligations that are no longer generated
	have := map[string]bool{}
	for _, o := range obls {
		have[o.Name] = true
	}
	gone := 0
	for n := range expected {
		if !have[n] {
			gone++
		}
	}
	if gone > 0 {
		r.say("NOTE: %d obligations of the committed baseline are no longer generated (code or contracts changed)", gone)
	}
	r.say("SUMMARY property=%s tier=%s obligations=%d discharged=%d known=%d undecided=%d violations=%d covers=%d canaries=%d solver_s=%.1f",
		r.prop, r.tier, r.total, r.discharged, len(r.known), len(r.undecided), len(r.violations), r.coverOK, r.canaryOK, r.solverTime)
}

func (r *Report) exitCode() int {
	if len(r.violations) > 0 || len(r.vacuous) > 0 || len(r.canaryBad) > 0 {
		return 1
	}
	if r.total == 0 {
		fmt.Printf("VACUOUS: no obligations were generated for %s\n", r.prop)
		return 1
	}
	return 0
}

func (r *Report) resultOf(o *Obligation) *FuncResult {
	for _, fr := range r.results {
		for _, x := range fr.Obls {
			if x == o {
				return fr
			}
		}
	}
	return nil
}

func (r *Report) writeReplay(o *Obligation, s SolveResult, ro replayOutcome) string {
	dir := filepath.Join(r.vd, "replay", r.prop)
	os.MkdirAll(dir, 0755)
	path := filepath.Join(dir, sanitize(o.Name)+".json")
	model := map[string]string{}
	for _, in := range o.Inputs {
		if v, ok := s.Model[in.Term]; ok {
			model[in.Name] = v
		}
	}
	out := map[string]interface{}{
		"property":      r.prop,
		"obligation":    o.Name,
		"kind":          o.Kind,
		"function":      o.Func,
		"position":      o.Pos,
		"solver_status": s.Status,
		"solver":        s.Solver,
		"solver_output": firstLines(s.Output, 60),
		"model_inputs":  model,
		"goal":          o.Goal,
		"replay":        ro,
	}
	writeJSON(path, out)
	return path
}

func (r *Report) writeEvidence() {
	type fnRec struct {
		Name        string `json:"name"`
		File        string `json:"file,omitempty"`
		Mode        string `json:"mode"`
		Obligations int    `json:"obligations"`
		Contract    bool   `json:"has_contract"`
		Scenario    string `json:"scenario,omitempty"`
	}
	var fns []fnRec
	assume := map[string]bool{}
	notes := map[string]bool{}
	for _, res := range r.results {
		if res.Err != nil {
			continue
		}
		n := 0
		for _, o := range res.Obls {
			if hasProp(o.Props, r.prop) {
				n++
			}
		}
		fns = append(fns, fnRec{Name: res.Fn.String(), File: r.eng.posString(res.Fn.Pos()), Mode: res.Mode.String(), Obligations: n, Contract: res.Contract != nil, Scenario: res.Scenario})
		for _, l := range res.LibUsed {
			switch {
			case strings.HasPrefix(l, "lib:"):
				assume["assumed library contract: "+strings.TrimPrefix(l, "lib:")] = true
			case strings.HasPrefix(l, "trusted-contract:"):
				assume["trusted (unverified) contract: "+strings.TrimPrefix(l, "trusted-contract:")] = true
			case strings.HasPrefix(l, "ext:"):
				assume["external call havocked (writes only through its arguments): "+strings.TrimPrefix(l, "ext:")] = true
			case strings.HasPrefix(l, "havoc:"):
				assume["callee without contract havocked by static footprint: "+strings.TrimPrefix(l, "havoc:")] = true
			case strings.HasPrefix(l, "invoke:"):
				assume["interface call havocked: "+strings.TrimPrefix(l, "invoke:")] = true
			case strings.HasPrefix(l, "assume-recv:"):
				assume["channel protocol fact assumed at a receive (proved at the senders): "+strings.TrimPrefix(l, "assume-recv:")] = true
			case strings.HasPrefix(l, "assume-after:"):
				assume["assumption of the caller about a call's result: "+strings.TrimPrefix(l, "assume-after:")] = true
			case strings.HasPrefix(l, "stable-across:"):
				assume["frame assumption of the caller (callee does not modify these objects): "+strings.TrimPrefix(l, "stable-across:")] = true
			case strings.HasPrefix(l, "ghost:"):
				assume["ghost state kept by the engine: "+strings.TrimPrefix(l, "ghost:")] = true
			case l == "dynamic-call":
				assume["dynamic function value call havocked"] = true
			}
		}
		for _, nn := range res.Notes {
			notes[nn] = true
		}
	}
	assume["go/ssa (x/tools v0.29.0) faithfully represents the compiled package; slice aliasing beyond base identity, goroutine scheduling (outside rely/guarantee), floating point arithmetic and unsafe are abstracted (DESIGN §2.6)"] = true
	assume["pointer receivers are non-nil (proved at call sites inside functions under contract)"] = true
	assume["lengths and capacities are at most 2^40 (type invariant of slices and strings)"] = true
	var samples []interface{}
	for i, rec := range r.records {
		if i >= 12 {
			break
		}
		samples = append(samples, rec)
	}
	ev := map[string]interface{}{
		"property_id": r.prop,
		"tier":        r.tier,
		"seed":        r.seed,
		"level":       "proof",
		"coverage": map[string]interface{}{
			"obligations":              r.total,
			"discharged":               r.discharged,
			"checker_cmd":              fmt.Sprintf("./bin/govc check -p %s -tier %s", r.prop, r.tier),
			"trusted_base":             []string{"z3 5.1.0 (z3-new)", "z3 4.8.12", "cvc5 1.0.3", "golang.org/x/tools/go/ssa v0.29.0", "govc VC generator (/verif/govc)", "Go memory model: sync/atomic operations are sequentially consistent"},
			"samples":                  samples,
			"functions_under_contract": fns,
			"by_backend":               r.byBackend,
			"solver_time_s":            r.solverTime,
			"undecided":                r.undecided,
			"known_findings_hit":       r.known,
			"vacuity":                  map[string]interface{}{"covers_sat": r.coverOK, "canaries_refuted": r.canaryOK, "vacuous": append(r.vacuous, r.canaryBad...)},
			"out_of_subset_notes":      sortedKeys(notes),
			"all_obligations":          r.records,
			"bounded":                  r.boundedRes,
			"load_s":                   r.loadS,
		},
		"assumptions": sortedKeys(assume),
		"wall_s":      r.wall,
		"violations":  len(r.violations),
	}
	writeJSON(filepath.Join(r.vd, "evidence", r.prop+".json"), ev)
}
