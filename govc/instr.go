package main

import (
	"fmt"
	"go/constant"
	"go/token"
	"go/types"
	"math"
	"math/big"
	"strings"

	"golang.org/x/tools/go/ssa"
)

func float64bits(f float64) uint64 { return math.Float64bits(f) }
func float32bits(f float32) uint32 { return math.Float32bits(f) }

var errorIface = types.Universe.Lookup("error").Type().Underlying().(*types.Interface)

// val returns the symbolic value of an SSA value in a state.
func (e *Exec) val(st *State, v ssa.Value) Val {
	if x, ok := st.vals[v]; ok {
		return x
	}
	switch c := v.(type) {
	case *ssa.Const:
		t := c.Type()
		if c.Value == nil {
			return Val{T: t, S: e.sc.zero(t)}
		}
		if s, ok := e.sc.constVal(c.Value, t); ok {
			return Val{T: t, S: s}
		}
		// complex etc.
		return e.freshVal(st, "const", t)
	case *ssa.Function:
		return Val{T: c.Type(), Fn: c, S: "0"}
	case *ssa.Global:
		// address of a package-level variable
		el := c.Type().(*types.Pointer).Elem()
		return Val{T: c.Type(), A: &Addr{Kind: ALocal, Key: "G|" + c.String(), Root: el, T: el}}
	case *ssa.Builtin:
		return Val{T: c.Type(), S: "0"}
	case *ssa.FreeVar:
		return e.freshVal(st, "freevar."+c.Name(), c.Type())
	case *ssa.Parameter:
		return e.freshVal(st, "param."+c.Name(), c.Type())
	}
	e.note("%s: value %s (%T) used before definition", e.curFn.String(), v.Name(), v)
	nv := e.freshVal(st, "undef", v.Type())
	st.vals[v] = nv
	return nv
}

func (e *Exec) set(st *State, v ssa.Value, x Val) {
	if x.T == nil {
		x.T = v.Type()
	}
	st.vals[v] = x
}

func (e *Exec) setTerm(st *State, v ssa.Value, term string) {
	st.vals[v] = Val{T: v.Type(), S: e.sc.define(v.Name(), e.sc.sortOf(v.Type()), term)}
}

func escapes(a *ssa.Alloc) bool {
	var chk func(v ssa.Value, depth int) bool
	chk = func(v ssa.Value, depth int) bool {
		refs := v.Referrers()
		if refs == nil {
			return true
		}
		for _, r := range *refs {
			switch x := r.(type) {
			case *ssa.FieldAddr:
				if chk(x, depth+1) {
					return true
				}
			case *ssa.IndexAddr:
				if x.X != v {
					return true
				}
				if chk(x, depth+1) {
					return true
				}
			case *ssa.UnOp:
				if x.Op != token.MUL {
					return true
				}
			case *ssa.Store:
				if x.Val == v {
					return true
				}
			case *ssa.DebugRef:
			case *ssa.Slice:
				// slicing a local array: the slice aliases the array; treat as escaping
				return true
			default:
				return true
			}
		}
		return false
	}
	return chk(a, 0)
}

// step executes one non-phi instruction. It returns false if the path ends.
func (e *Exec) step(fn *ssa.Function, fc *FuncContract, st *State, ins ssa.Instruction) (bool, []Exit) {
	switch x := ins.(type) {
	case *ssa.DebugRef:
		return true, nil
	case *ssa.Alloc:
		el := x.Type().(*types.Pointer).Elem()
		if !x.Heap || !escapes(x) {
			if !escapes(x) {
				key := fmt.Sprintf("L|%s.%s", fn.Name(), x.Name())
				a := &Addr{Kind: ALocal, Key: key, Root: el, T: el}
				e.memGet(st, key, e.sc.sortOf(el))
				e.memSet(st, key, e.sc.sortOf(el), e.sc.zero(el))
				e.set(st, x, Val{T: x.Type(), A: a})
				return true, nil
			}
		}
		ref := e.allocRef(st)
		if u, ok := el.Underlying().(*types.Struct); ok {
			for i := 0; i < u.NumFields(); i++ {
				k, srt := e.heapKey(el, i)
				m := e.memGet(st, k, srt)
				e.memSet(st, k, srt, fmt.Sprintf("(store %s %s %s)", m, ref, e.sc.zero(u.Field(i).Type())))
			}
		} else {
			k, srt := e.cellKey(el)
			m := e.memGet(st, k, srt)
			e.memSet(st, k, srt, fmt.Sprintf("(store %s %s %s)", m, ref, e.sc.zero(el)))
		}
		e.set(st, x, Val{T: x.Type(), S: ref})
		return true, nil

	case *ssa.BinOp:
		e.binop(st, x)
		return true, nil

	case *ssa.UnOp:
		e.unop(st, x)
		return true, nil

	case *ssa.ChangeType:
		v := e.val(st, x.X)
		v.T = x.Type()
		e.set(st, x, v)
		return true, nil

	case *ssa.Convert:
		e.convert(st, x, x.X, x.Type())
		return true, nil

	case *ssa.MultiConvert:
		e.convert(st, x, x.X, x.Type())
		return true, nil

	case *ssa.ChangeInterface:
		v := e.val(st, x.X)
		v.T = x.Type()
		e.set(st, x, v)
		return true, nil

	case *ssa.MakeInterface:
		v := e.val(st, x.X)
		tag := e.sc.typeTag(x.X.Type())
		var pay string
		if v.A != nil || v.Fn != nil {
			pay = e.sc.fresh("pay", "Int")
		} else {
			pay = e.sc.box(x.X.Type(), v.S)
		}
		e.setTerm(st, x, fmt.Sprintf("(mk-iface %d %s)", tag, pay))
		return true, nil

	case *ssa.TypeAssert:
		e.typeAssert(st, x)
		return true, nil

	case *ssa.Extract:
		t := e.val(st, x.Tuple)
		if x.Index < len(t.Tup) {
			v := t.Tup[x.Index]
			v.T = x.Type()
			e.set(st, x, v)
		} else {
			e.set(st, x, e.freshVal(st, x.Name(), x.Type()))
		}
		return true, nil

	case *ssa.Field:
		v := e.val(st, x.X)
		stt := x.X.Type()
		u := stt.Underlying().(*types.Struct)
		e.sc.sortOf(stt)
		e.setTerm(st, x, fmt.Sprintf("(%s %s)", fieldSel(structKey(stt), x.Field, u.Field(x.Field).Name()), v.S))
		return true, nil

	case *ssa.FieldAddr:
		p := e.val(st, x.X)
		stt := x.X.Type().Underlying().(*types.Pointer).Elem()
		ft := stt.Underlying().(*types.Struct).Field(x.Field).Type()
		if p.A != nil {
			na := *p.A
			na.Steps = append(append([]step(nil), p.A.Steps...), step{field: x.Field, st: stt})
			na.T = ft
			e.set(st, x, Val{T: x.Type(), A: &na})
			return true, nil
		}
		e.checkNonNil(st, p.S, e.srcText(x.X.Pos())+"."+stt.Underlying().(*types.Struct).Field(x.Field).Name(), x.Pos())
		k, _ := e.heapKey(stt, x.Field)
		e.set(st, x, Val{T: x.Type(), A: &Addr{Kind: AHeap, Key: k, Ref: p.S, Root: ft, T: ft}})
		return true, nil

	case *ssa.IndexAddr:
		e.indexAddr(st, x)
		return true, nil

	case *ssa.Index:
		v := e.val(st, x.X)
		i := e.toIdx(st, e.val(st, x.Index))
		switch u := x.X.Type().Underlying().(type) {
		case *types.Array:
			e.check(st, "index", e.srcText(x.Pos()), and(e.le(e.sc.idxLit(0), i), e.lt(i, e.sc.idxLit(u.Len()))), x.Pos())
			e.setTerm(st, x, fmt.Sprintf("(select %s %s)", v.S, i))
		default: // string
			e.check(st, "index", e.srcText(x.Pos()), and(e.le(e.sc.idxLit(0), i), e.lt(i, "(str-len "+v.S+")")), x.Pos())
			e.setTerm(st, x, fmt.Sprintf("(select (str-arr %s) %s)", v.S, e.add("(str-off "+v.S+")", i)))
		}
		return true, nil

	case *ssa.Lookup:
		e.lookup(st, x)
		return true, nil

	case *ssa.Slice:
		e.sliceOp(st, x)
		return true, nil

	case *ssa.MakeSlice:
		l := e.toIdx(st, e.val(st, x.Len))
		c := e.toIdx(st, e.val(st, x.Cap))
		lbl := e.srcText(x.Pos())
		e.check(st, "make", lbl, and(e.le(e.sc.idxLit(0), l), e.le(l, c), e.le(c, e.sc.idxLit(4*maxLen))), x.Pos())
		// assumption (memory is finite): an allocation that succeeds has at most 2^40 elements
		e.assume(st, e.le(c, e.sc.idxLit(maxLen)))
		e.allocCheck(st, x, l, c)
		el := x.Type().Underlying().(*types.Slice).Elem()
		ref := e.allocRef(st)
		k, srt := e.elemKey(el)
		m := e.memGet(st, k, srt)
		e.memSet(st, k, srt, fmt.Sprintf("(store %s %s ((as const (Array %s %s)) %s))", m, ref, e.sc.idx(), e.sc.sortOf(el), e.sc.zero(el)))
		e.setTerm(st, x, fmt.Sprintf("(mk-slice %s %s %s %s)", ref, e.sc.idxLit(0), l, c))
		return true, nil

	case *ssa.MakeMap:
		if x.Reserve != nil && e.eng.allocHook != nil {
			if _, isC := x.Reserve.(*ssa.Const); !isC {
				// a size hint taken from the input reserves memory for that many entries up front
				rv := e.toIdx(st, e.val(st, x.Reserve))
				e.eng.allocHook(e, st, x, rv, rv)
			}
		}
		ref := e.allocRef(st)
		mt := x.Type().Underlying().(*types.Map)
		if x.Reserve != nil {
			r := e.toIdx(st, e.val(st, x.Reserve))
			_ = r // a negative or huge hint does not panic in Go (hint is advisory for make(map)), nothing to check
		}
		e.mapInit(st, mt, ref)
		e.set(st, x, Val{T: x.Type(), S: ref})
		e.assumeWF(st, Val{T: x.Type(), S: ref})
		return true, nil

	case *ssa.MakeChan:
		ref := e.allocRef(st)
		e.set(st, x, Val{T: x.Type(), S: ref})
		// the capacity is a property of the channel (chancap(ch) in contracts)
		e.chanCapFun()
		e.assume(st, eq(fmt.Sprintf("(chan.cap %s)", ref), e.toIdx(st, e.val(st, x.Size))))
		return true, nil

	case *ssa.MakeClosure:
		f := x.Fn.(*ssa.Function)
		var bs []Val
		for _, b := range x.Bindings {
			bs = append(bs, e.val(st, b))
		}
		e.set(st, x, Val{T: x.Type(), Fn: f, Bind: bs, S: e.allocRef(st)})
		e.closureRequires(st, x, f, bs)
		return true, nil

	case *ssa.MapUpdate:
		e.mapUpdate(st, x)
		return true, nil

	case *ssa.Range:
		e.rangeInit(st, x)
		return true, nil

	case *ssa.Next:
		e.rangeNext(st, x)
		return true, nil

	case *ssa.Store:
		p := e.val(st, x.Addr)
		v := e.val(st, x.Val)
		if p.A == nil {
			e.checkNonNil(st, p.S, "*"+e.srcText(x.Addr.Pos()), x.Pos())
		}
		if v.A != nil || v.Fn != nil {
			// storing an address / function value: keep it only for local cells
			if p.A != nil && p.A.Kind == ALocal && len(p.A.Steps) == 0 {
				e.ptrCells()[p.A.Key] = v
				return true, nil
			}
			e.note("%s: store of a derived address/function value abstracted", fn.String())
			v = e.freshVal(st, "absptr", x.Val.Type())
		}
		e.store(st, p, v)
		return true, nil

	case *ssa.Call:
		return e.call(fn, fc, st, x)

	case *ssa.Defer:
		d := deferred{call: &x.Call}
		for _, a := range x.Call.Args {
			d.args = append(d.args, e.val(st, a))
		}
		d.fn = e.val(st, x.Call.Value)
		st.defers = append(st.defers, d)
		return true, nil

	case *ssa.RunDefers:
		return e.runDefers(fn, fc, st)

	case *ssa.Go:
		e.goStmt(st, x)
		return true, nil

	case *ssa.Send:
		e.sendStmt(st, x)
		return true, nil

	case *ssa.Select:
		e.selectStmt(st, x)
		return true, nil

	case *ssa.Return:
		var rs []Val
		for _, r := range x.Results {
			rs = append(rs, e.val(st, r))
		}
		e.atReturn(st, x, rs)
		return false, []Exit{{kind: exitReturn, st: st, results: rs}}

	case *ssa.Panic:
		return false, e.panicInstr(st, x)

	case *ssa.If, *ssa.Jump:
		return true, nil

	case *ssa.SliceToArrayPointer:
		v := e.val(st, x.X)
		n := x.Type().(*types.Pointer).Elem().Underlying().(*types.Array).Len()
		e.check(st, "slice", e.srcText(x.Pos()), e.le(e.sc.idxLit(n), "(s-len "+v.S+")"), x.Pos())
		e.set(st, x, e.freshVal(st, x.Name(), x.Type()))
		e.note("%s: slice-to-array-pointer abstracted", fn.String())
		return true, nil
	}
	e.note("%s: unsupported instruction %T", fn.String(), ins)
	if v, ok := ins.(ssa.Value); ok {
		e.set(st, v, e.freshVal(st, v.Name(), v.Type()))
	}
	return true, nil
}

// ptrCells: Go-side storage for addresses stored in local cells (rare).
var ptrCellStore = map[*Exec]map[string]Val{}

func (e *Exec) ptrCells() map[string]Val {
	m := ptrCellStore[e]
	if m == nil {
		m = map[string]Val{}
		ptrCellStore[e] = m
	}
	return m
}

func (e *Exec) chanCapFun() {
	if !e.sc.funs["chan.cap"] {
		e.sc.funs["chan.cap"] = true
		e.sc.emit(fmt.Sprintf("(declare-fun chan.cap (Int) %s)", e.sc.idx()))
	}
}

// toIdx converts an integer value to the index sort.
func (e *Exec) toIdx(st *State, v Val) string {
	if e.mode == ModeInt {
		return v.S
	}
	b, ok := v.T.Underlying().(*types.Basic)
	if !ok {
		return v.S
	}
	w, signed, ok := intWidth(b)
	if !ok || w == 64 {
		return v.S
	}
	if signed {
		return fmt.Sprintf("((_ sign_extend %d) %s)", 64-w, v.S)
	}
	return fmt.Sprintf("((_ zero_extend %d) %s)", 64-w, v.S)
}

func (e *Exec) indexAddr(st *State, x *ssa.IndexAddr) {
	base := e.val(st, x.X)
	iv := e.val(st, x.Index)
	i := e.toIdx(st, iv)
	e.sc.noteIdx(i, e.sc.idx())
	// an unsigned 64-bit index that does not fit int is out of range anyway
	lbl := e.srcText(x.Pos())
	if lbl == "" {
		lbl = x.X.Name() + "[" + x.Index.Name() + "]"
	}
	switch u := x.X.Type().Underlying().(type) {
	case *types.Slice:
		e.check(st, "index", lbl, and(e.le(e.sc.idxLit(0), i), e.lt(i, "(s-len "+base.S+")")), x.Pos())
		k, _ := e.elemKey(u.Elem())
		abs := e.sc.define("ix", e.sc.idx(), e.add("(s-off "+base.S+")", i))
		e.set(st, x, Val{T: x.Type(), A: &Addr{Kind: AElem, Key: k, Ref: "(s-base " + base.S + ")", Idx: abs, Root: u.Elem(), T: u.Elem()}})
	case *types.Pointer:
		arr := u.Elem().Underlying().(*types.Array)
		e.check(st, "index", lbl, and(e.le(e.sc.idxLit(0), i), e.lt(i, e.sc.idxLit(arr.Len()))), x.Pos())
		var a *Addr
		if base.A != nil {
			na := *base.A
			na.Steps = append(append([]step(nil), base.A.Steps...), step{isIdx: true, idx: i, st: u.Elem()})
			na.T = arr.Elem()
			a = &na
		} else {
			e.checkNonNil(st, base.S, lbl, x.Pos())
			k, _ := e.cellKey(u.Elem())
			a = &Addr{Kind: ACell, Key: k, Ref: base.S, Root: u.Elem(), T: arr.Elem(), Steps: []step{{isIdx: true, idx: i, st: u.Elem()}}}
		}
		e.set(st, x, Val{T: x.Type(), A: a})
	default:
		e.note("indexaddr on %s", x.X.Type())
		e.set(st, x, e.freshVal(st, x.Name(), x.Type()))
	}
}

func (e *Exec) sliceOp(st *State, x *ssa.Slice) {
	base := e.val(st, x.X)
	z := e.sc.idxLit(0)
	lbl := e.srcText(x.Pos())
	get := func(v ssa.Value, def string) string {
		if v == nil {
			return def
		}
		return e.toIdx(st, e.val(st, v))
	}
	switch u := x.X.Type().Underlying().(type) {
	case *types.Slice:
		ln, cp := "(s-len "+base.S+")", "(s-cap "+base.S+")"
		lo := get(x.Low, z)
		hi := get(x.High, ln)
		mx := get(x.Max, cp)
		goal := and(e.le(z, lo), e.le(lo, hi), e.le(hi, mx), e.le(mx, cp))
		e.check(st, "slice", lbl, goal, x.Pos())
		if e.eng.strictLen && x.High != nil {
			// reads beyond len (but within cap) are "outside the received data"
		}
		nb := "(s-base " + base.S + ")"
		e.setTerm(st, x, fmt.Sprintf("(mk-slice %s %s %s %s)", nb, e.add("(s-off "+base.S+")", lo), e.sub(hi, lo), e.sub(mx, lo)))
	case *types.Basic: // string
		ln := "(str-len " + base.S + ")"
		lo := get(x.Low, z)
		hi := get(x.High, ln)
		e.check(st, "slice", lbl, and(e.le(z, lo), e.le(lo, hi), e.le(hi, ln)), x.Pos())
		e.setTerm(st, x, fmt.Sprintf("(mk-str (str-arr %s) %s %s)", base.S, e.add("(str-off "+base.S+")", lo), e.sub(hi, lo)))
	case *types.Pointer: // pointer to array
		arr := u.Elem().Underlying().(*types.Array)
		n := e.sc.idxLit(arr.Len())
		lo := get(x.Low, z)
		hi := get(x.High, n)
		mx := get(x.Max, n)
		e.check(st, "slice", lbl, and(e.le(z, lo), e.le(lo, hi), e.le(hi, mx), e.le(mx, n)), x.Pos())
		if base.A == nil || (base.A.Kind == ACell && len(base.A.Steps) == 0) {
			// the array cell lives in the element memory: the slice aliases it
			ref := base.S
			if base.A != nil {
				ref = base.A.Ref
			} else {
				e.checkNonNil(st, ref, lbl, x.Pos())
			}
			e.setTerm(st, x, fmt.Sprintf("(mk-slice %s %s %s %s)", ref, lo, e.sub(hi, lo), e.sub(mx, lo)))
			return
		}
		// materialise the array as a fresh backing store holding the current contents
		var cur string
		if base.A != nil {
			cur = e.project(e.rootLoad(st, base.A), base.A.Steps)
		} else {
			cur = e.load(st, base).S
		}
		ref := e.allocRef(st)
		k, srt := e.elemKey(arr.Elem())
		m := e.memGet(st, k, srt)
		e.memSet(st, k, srt, fmt.Sprintf("(store %s %s %s)", m, ref, cur))
		e.setTerm(st, x, fmt.Sprintf("(mk-slice %s %s %s %s)", ref, lo, e.sub(hi, lo), e.sub(mx, lo)))
		if base.A != nil {
			e.arrayAlias(x, base.A)
		}
	default:
		e.set(st, x, e.freshVal(st, x.Name(), x.Type()))
	}
}

// arrayAlias records that a slice value aliases a local array (copy-in model:
// later writes through the slice are not reflected in the array).
func (e *Exec) arrayAlias(x *ssa.Slice, a *Addr) {
	e.note("%s: slice of a local array is a copy in the model (writes through it are not reflected back)", e.curFn.String())
}

func (e *Exec) allocCheck(st *State, x ssa.Instruction, l, c string) {
	// hook for the C05 allocation-proportionality obligations (see sweep.go)
	if e.eng.allocHook != nil {
		e.eng.allocHook(e, st, x, l, c)
	}
}

// ---------- binary / unary operations ----------

func (e *Exec) binop(st *State, x *ssa.BinOp) {
	a := e.val(st, x.X)
	b := e.val(st, x.Y)
	t := x.X.Type()
	res := x.Type()
	switch {
	case isBool(t):
		switch x.Op {
		case token.EQL:
			e.setTerm(st, x, eq(a.S, b.S))
		case token.NEQ:
			e.setTerm(st, x, not(eq(a.S, b.S)))
		case token.LAND, token.AND:
			e.setTerm(st, x, and(a.S, b.S))
		case token.LOR, token.OR:
			e.setTerm(st, x, or(a.S, b.S))
		default:
			e.set(st, x, e.freshVal(st, x.Name(), res))
		}
		return
	case isIntType(t):
		e.intBinop(st, x, a, b)
		return
	case isString(t):
		switch x.Op {
		case token.EQL:
			e.setTerm(st, x, e.strEq(a.S, b.S, x.X, x.Y))
		case token.NEQ:
			e.setTerm(st, x, not(e.strEq(a.S, b.S, x.X, x.Y)))
		case token.ADD:
			r := e.freshVal(st, x.Name(), res)
			e.assume(st, eq("(str-len "+r.S+")", e.add("(str-len "+a.S+")", "(str-len "+b.S+")")))
			e.assume(st, e.strConcatAx(r.S, a.S, b.S))
			e.set(st, x, r)
		default:
			e.strCmpDecl()
			var term string
			switch x.Op {
			case token.LSS:
				term = fmt.Sprintf("(str.lt.go %s %s)", a.S, b.S)
			case token.GTR:
				term = fmt.Sprintf("(str.lt.go %s %s)", b.S, a.S)
			case token.LEQ:
				term = fmt.Sprintf("(not (str.lt.go %s %s))", b.S, a.S)
			case token.GEQ:
				term = fmt.Sprintf("(not (str.lt.go %s %s))", a.S, b.S)
			}
			e.setTerm(st, x, term)
		}
		return
	}
	if _, ok := isFloat(t); ok {
		e.floatBinop(st, x, a, b)
		return
	}
	// pointers, interfaces, chans, maps, funcs, arrays, structs: (in)equality only
	switch x.Op {
	case token.EQL, token.NEQ:
		var term string
		if a.A != nil || b.A != nil || a.Fn != nil || b.Fn != nil {
			if a.A != nil && b.A == nil && isNilConst(x.Y) || b.A != nil && a.A == nil && isNilConst(x.X) {
				term = "false" // derived addresses are never nil
			} else if a.Fn != nil && isNilConst(x.Y) || b.Fn != nil && isNilConst(x.X) {
				term = "false"
			} else {
				term = e.sc.fresh("ptreq", "Bool")
			}
		} else if _, isI := t.Underlying().(*types.Interface); isI {
			term = eq(a.S, b.S)
			if isNilConst(x.Y) {
				term = fmt.Sprintf("(= (i-tag %s) 0)", a.S)
			} else if isNilConst(x.X) {
				term = fmt.Sprintf("(= (i-tag %s) 0)", b.S)
			}
		} else if _, isS := t.Underlying().(*types.Slice); isS {
			if isNilConst(x.Y) {
				term = fmt.Sprintf("(= (s-base %s) 0)", a.S)
			} else {
				term = fmt.Sprintf("(= (s-base %s) 0)", b.S)
			}
		} else {
			term = eq(a.S, b.S)
		}
		if x.Op == token.NEQ {
			term = not(term)
		}
		e.setTerm(st, x, term)
	default:
		e.set(st, x, e.freshVal(st, x.Name(), res))
	}
}

func isNilConst(v ssa.Value) bool {
	c, ok := v.(*ssa.Const)
	return ok && c.Value == nil
}

func (e *Exec) strCmpDecl() {
	if !e.sc.funs["str.lt.go"] {
		e.sc.funs["str.lt.go"] = true
		e.sc.emit("(declare-fun str.lt.go (Str Str) Bool)")
	}
}

// strEq: Go string equality = same length and same bytes.
func (e *Exec) strEq(a, b string, xa, xb ssa.Value) string {
	// comparison with a short constant is expanded (quantifier-free)
	if c, ok := xb.(*ssa.Const); ok && c.Value != nil && c.Value.Kind() == constant.String {
		return e.strEqConst(a, constant.StringVal(c.Value))
	}
	if c, ok := xa.(*ssa.Const); ok && c.Value != nil && c.Value.Kind() == constant.String {
		return e.strEqConst(b, constant.StringVal(c.Value))
	}
	return e.strEqTerm(a, b)
}

func (e *Exec) strEqConst(a string, c string) string {
	if len(c) > 64 {
		return e.strEqTerm(a, e.sc.strConst(c))
	}
	parts := []string{eq("(str-len "+a+")", e.sc.idxLit(int64(len(c))))}
	for i := 0; i < len(c); i++ {
		parts = append(parts, eq(fmt.Sprintf("(select (str-arr %s) %s)", a, e.add("(str-off "+a+")", e.sc.idxLit(int64(i)))), e.sc.byteLit(int(c[i]))))
	}
	return and(parts...)
}

func (e *Exec) strEqTerm(a, b string) string {
	// Go string equality as an uninterpreted predicate with ground consequences
	// (sound over-approximation: it is implied by identity and implies equal length;
	// byte-level content is only related for comparisons with constants, see strEqConst).
	// This keeps the scripts quantifier-free.
	if !e.sc.funs["str.eq"] {
		e.sc.funs["str.eq"] = true
		e.sc.emit("(declare-fun str.eq (Str Str) Bool)")
	}
	if a == b {
		return "true"
	}
	key := "str.eq:" + a + "|" + b
	if strings.Contains(a, "q.") || strings.Contains(b, "q.") {
		// inside a quantifier body: no ground instance possible
		return fmt.Sprintf("(str.eq %s %s)", a, b)
	}
	if !e.sc.funs[key] {
		e.sc.funs[key] = true
		e.sc.emit(fmt.Sprintf("(assert (and (=> (= %s %s) (str.eq %s %s)) (=> (str.eq %s %s) (= (str-len %s) (str-len %s))) (= (str.eq %s %s) (str.eq %s %s))))", a, b, a, b, a, b, a, b, a, b, b, a))
	}
	return fmt.Sprintf("(str.eq %s %s)", a, b)
}

func (e *Exec) strConcatAx(r, a, b string) string {
	i := e.sc.idx()
	return fmt.Sprintf("(forall ((k %s)) (! (and (=> (and %s %s) (= (select (str-arr %s) %s) (select (str-arr %s) %s))) (=> (and %s %s) (= (select (str-arr %s) %s) (select (str-arr %s) %s)))) :pattern ((select (str-arr %s) %s))))",
		i,
		e.le(e.sc.idxLit(0), "k"), e.lt("k", "(str-len "+a+")"), r, e.add("(str-off "+r+")", "k"), a, e.add("(str-off "+a+")", "k"),
		e.le("(str-len "+a+")", "k"), e.lt("k", "(str-len "+r+")"), r, e.add("(str-off "+r+")", "k"), b, e.add("(str-off "+b+")", e.sub("k", "(str-len "+a+")")),
		r, e.add("(str-off "+r+")", "k"))
}

func (e *Exec) intBinop(st *State, x *ssa.BinOp, a, b Val) {
	bt := x.X.Type().Underlying().(*types.Basic)
	w, signed, _ := intWidth(bt)
	if e.mode == ModeInt {
		e.intBinopMath(st, x, a, b, w, signed)
		return
	}
	cmp := func(s, u string) string {
		if signed {
			return fmt.Sprintf("(%s %s %s)", s, a.S, b.S)
		}
		return fmt.Sprintf("(%s %s %s)", u, a.S, b.S)
	}
	switch x.Op {
	case token.ADD:
		e.setTerm(st, x, fmt.Sprintf("(bvadd %s %s)", a.S, b.S))
	case token.SUB:
		e.setTerm(st, x, fmt.Sprintf("(bvsub %s %s)", a.S, b.S))
	case token.MUL:
		if e.abstractMul(x.Type()) {
			// sound abstraction: multiplication as an uninterpreted function (constant operand second)
			e.eng.spec.need(e.sc, "umul64")
			l, r := a.S, b.S
			if _, isC := x.X.(*ssa.Const); isC {
				l, r = r, l
			}
			e.setTerm(st, x, fmt.Sprintf("(umul64 %s %s)", l, r))
			break
		}
		e.setTerm(st, x, fmt.Sprintf("(bvmul %s %s)", a.S, b.S))
	case token.QUO:
		e.check(st, "div", e.srcText(x.Pos()), not(eq(b.S, bvLit(big.NewInt(0), w))), x.Pos())
		if signed && w == 64 && e.abstractFlag("abstract_quo", x.Type()) {
			// sound abstraction: the quotient as an uninterpreted function of its operands
			// (`abstract_quo int64`: nothing proved may depend on its value)
			if !e.sc.funs["squo64"] {
				e.sc.funs["squo64"] = true
				e.sc.emit("(declare-fun squo64 ((_ BitVec 64) (_ BitVec 64)) (_ BitVec 64))")
			}
			e.setTerm(st, x, fmt.Sprintf("(squo64 %s %s)", a.S, b.S))
			break
		}
		if signed {
			e.setTerm(st, x, fmt.Sprintf("(bvsdiv %s %s)", a.S, b.S))
		} else {
			e.setTerm(st, x, fmt.Sprintf("(bvudiv %s %s)", a.S, b.S))
		}
	case token.REM:
		e.check(st, "div", e.srcText(x.Pos()), not(eq(b.S, bvLit(big.NewInt(0), w))), x.Pos())
		if _, isC := x.Y.(*ssa.Const); !isC && signed && w == 64 && e.abstractFlag("abstract_rem", x.Type()) {
			e.setTerm(st, x, e.sremAbstract(a.S, b.S))
			break
		}
		if signed {
			e.setTerm(st, x, fmt.Sprintf("(bvsrem %s %s)", a.S, b.S))
		} else {
			e.setTerm(st, x, fmt.Sprintf("(bvurem %s %s)", a.S, b.S))
		}
	case token.AND:
		e.setTerm(st, x, fmt.Sprintf("(bvand %s %s)", a.S, b.S))
	case token.OR:
		e.setTerm(st, x, fmt.Sprintf("(bvor %s %s)", a.S, b.S))
	case token.XOR:
		e.setTerm(st, x, fmt.Sprintf("(bvxor %s %s)", a.S, b.S))
	case token.AND_NOT:
		e.setTerm(st, x, fmt.Sprintf("(bvand %s (bvnot %s))", a.S, b.S))
	case token.SHL, token.SHR:
		cnt := e.shiftCount(st, x, b, w)
		op := "bvshl"
		if x.Op == token.SHR {
			op = "bvlshr"
			if signed {
				op = "bvashr"
			}
		}
		e.setTerm(st, x, fmt.Sprintf("(%s %s %s)", op, a.S, cnt))
	case token.EQL:
		e.setTerm(st, x, eq(a.S, b.S))
	case token.NEQ:
		e.setTerm(st, x, not(eq(a.S, b.S)))
	case token.LSS:
		e.setTerm(st, x, cmp("bvslt", "bvult"))
	case token.LEQ:
		e.setTerm(st, x, cmp("bvsle", "bvule"))
	case token.GTR:
		e.setTerm(st, x, cmp("bvsgt", "bvugt"))
	case token.GEQ:
		e.setTerm(st, x, cmp("bvsge", "bvuge"))
	default:
		e.set(st, x, e.freshVal(st, x.Name(), x.Type()))
	}
}

// shiftCount converts the shift count to the width of the shifted operand,
// saturating at w (Go: shifting by >= width gives 0 / sign fill). A negative
// signed count is a run-time panic.
func (e *Exec) shiftCount(st *State, x *ssa.BinOp, b Val, w int) string {
	cb := x.Y.Type().Underlying().(*types.Basic)
	cw, csigned, _ := intWidth(cb)
	c := b.S
	if csigned {
		if _, isConst := x.Y.(*ssa.Const); !isConst {
			e.check(st, "shift", e.srcText(x.Pos()), fmt.Sprintf("(bvsge %s %s)", c, bvLit(big.NewInt(0), cw)), x.Pos())
		}
	}
	if cw == w {
		return c
	}
	if cw < w {
		return fmt.Sprintf("((_ zero_extend %d) %s)", w-cw, c)
	}
	// cw > w: saturate
	wl := bvLit(big.NewInt(int64(w)), cw)
	sat := fmt.Sprintf("(ite (bvuge %s %s) %s %s)", c, wl, wl, c)
	return fmt.Sprintf("((_ extract %d 0) %s)", w-1, sat)
}

func (e *Exec) intBinopMath(st *State, x *ssa.BinOp, a, b Val, w int, signed bool) {
	lo, hi := intRange(w, signed)
	inRange := func(t string) string { return fmt.Sprintf("(and (<= %s %s) (<= %s %s))", lo, t, t, hi) }
	arith := func(op string) {
		t := e.sc.define(x.Name(), "Int", fmt.Sprintf("(%s %s %s)", op, a.S, b.S))
		e.check(st, "overflow", e.srcText(x.Pos()), inRange(t), x.Pos())
		e.set(st, x, Val{T: x.Type(), S: t})
	}
	switch x.Op {
	case token.ADD:
		arith("+")
	case token.SUB:
		arith("-")
	case token.MUL:
		arith("*")
	case token.QUO, token.REM:
		e.check(st, "div", e.srcText(x.Pos()), not(eq(b.S, "0")), x.Pos())
		// Go truncates toward zero; SMT div/mod are Euclidean.
		q := fmt.Sprintf("(ite (>= %s 0) (div %s %s) (- (div (- %s) %s)))", a.S, a.S, b.S, a.S, b.S)
		if x.Op == token.QUO {
			e.setTerm(st, x, q)
		} else {
			e.setTerm(st, x, fmt.Sprintf("(- %s (* %s %s))", a.S, b.S, q))
		}
	case token.EQL:
		e.setTerm(st, x, eq(a.S, b.S))
	case token.NEQ:
		e.setTerm(st, x, not(eq(a.S, b.S)))
	case token.LSS:
		e.setTerm(st, x, fmt.Sprintf("(< %s %s)", a.S, b.S))
	case token.LEQ:
		e.setTerm(st, x, fmt.Sprintf("(<= %s %s)", a.S, b.S))
	case token.GTR:
		e.setTerm(st, x, fmt.Sprintf("(> %s %s)", a.S, b.S))
	case token.GEQ:
		e.setTerm(st, x, fmt.Sprintf("(>= %s %s)", a.S, b.S))
	default:
		// bit operations are uninterpreted in int mode (sound: result only range-constrained)
		name := "bitop." + sanitize(x.Op.String())
		if !e.sc.funs[name] {
			e.sc.funs[name] = true
			e.sc.emit(fmt.Sprintf("(declare-fun %s (Int Int) Int)", name))
		}
		t := e.sc.define(x.Name(), "Int", fmt.Sprintf("(%s %s %s)", name, a.S, b.S))
		e.assume(st, inRange(t))
		e.set(st, x, Val{T: x.Type(), S: t})
	}
}

func (e *Exec) floatBinop(st *State, x *ssa.BinOp, a, b Val) {
	// floating point is opaque (DESIGN §2.6.3): uninterpreted functions of the bit patterns
	w, _ := isFloat(x.X.Type())
	op := sanitize(x.Op.String())
	name := fmt.Sprintf("fop.%s.%d", op, w)
	rs := e.sc.sortOf(x.Type())
	if !e.sc.funs[name] {
		e.sc.funs[name] = true
		e.sc.emit(fmt.Sprintf("(declare-fun %s ((_ BitVec %d) (_ BitVec %d)) %s)", name, w, w, rs))
	}
	e.setTerm(st, x, fmt.Sprintf("(%s %s %s)", name, a.S, b.S))
}

func (e *Exec) unop(st *State, x *ssa.UnOp) {
	switch x.Op {
	case token.MUL:
		p := e.val(st, x.X)
		if p.A == nil {
			e.checkNonNil(st, p.S, "*"+e.srcText(x.X.Pos()), x.Pos())
		} else if p.A.Kind == ALocal && len(p.A.Steps) == 0 {
			if pv, ok := e.ptrCells()[p.A.Key]; ok {
				e.set(st, x, pv)
				return
			}
		}
		v := e.load(st, p)
		v.T = x.Type()
		e.set(st, x, v)
	case token.NOT:
		e.setTerm(st, x, not(e.val(st, x.X).S))
	case token.SUB:
		v := e.val(st, x.X)
		if _, ok := isFloat(x.Type()); ok {
			e.set(st, x, e.freshVal(st, x.Name(), x.Type()))
			return
		}
		if e.mode == ModeBV {
			e.setTerm(st, x, fmt.Sprintf("(bvneg %s)", v.S))
		} else {
			b := x.Type().Underlying().(*types.Basic)
			w, signed, _ := intWidth(b)
			lo, hi := intRange(w, signed)
			t := e.sc.define(x.Name(), "Int", fmt.Sprintf("(- %s)", v.S))
			e.check(st, "overflow", e.srcText(x.Pos()), fmt.Sprintf("(and (<= %s %s) (<= %s %s))", lo, t, t, hi), x.Pos())
			e.set(st, x, Val{T: x.Type(), S: t})
		}
	case token.XOR:
		v := e.val(st, x.X)
		if e.mode == ModeBV {
			e.setTerm(st, x, fmt.Sprintf("(bvnot %s)", v.S))
		} else {
			e.set(st, x, e.freshVal(st, x.Name(), x.Type()))
		}
	case token.ARROW:
		e.recvOp(st, x)
	default:
		e.set(st, x, e.freshVal(st, x.Name(), x.Type()))
	}
}

// ---------- conversions ----------

func (e *Exec) convert(st *State, x ssa.Value, from ssa.Value, to types.Type) {
	v := e.val(st, from)
	ft := from.Type()
	fb, fok := ft.Underlying().(*types.Basic)
	tb, tok := to.Underlying().(*types.Basic)
	if fok && tok {
		fw, fsigned, fint := intWidth(fb)
		tw, tsigned, tint := intWidth(tb)
		switch {
		case fint && tint:
			e.setTerm(st, x, e.convInt(st, v.S, fw, fsigned, tw, tsigned, x))
			return
		case fint && isString(to):
			// string(rune): opaque, length 1..4
			r := e.freshVal(st, x.Name(), to)
			e.assume(st, and(e.le(e.sc.idxLit(1), "(str-len "+r.S+")"), e.le("(str-len "+r.S+")", e.sc.idxLit(4))))
			e.set(st, x, r)
			return
		case isString(ft) && isString(to):
			e.set(st, x, Val{T: to, S: v.S})
			return
		}
		_, ffl := isFloat(ft)
		tfw, tfl := isFloat(to)
		if ffl && tfl {
			ffw, _ := isFloat(ft)
			if ffw == tfw {
				e.set(st, x, Val{T: to, S: v.S})
				return
			}
		}
		if (fint || ffl) && (tint || tfl) {
			// int<->float: opaque function of the source
			name := fmt.Sprintf("conv.%s.%s", sortTag(e.sc.sortOf(ft)), sortTag(e.sc.sortOf(to)))
			if tint {
				name += fmt.Sprintf(".%v", tsigned)
			}
			if fint {
				name += fmt.Sprintf(".from%v", fsigned)
			}
			if !e.sc.funs[name] {
				e.sc.funs[name] = true
				e.sc.emit(fmt.Sprintf("(declare-fun %s (%s) %s)", name, e.sc.sortOf(ft), e.sc.sortOf(to)))
			}
			r := Val{T: to, S: e.sc.define(x.Name(), e.sc.sortOf(to), fmt.Sprintf("(%s %s)", name, v.S))}
			e.assumeWF(st, r)
			e.set(st, x, r)
			return
		}
		if tb.Kind() == types.UnsafePointer || fb.Kind() == types.UnsafePointer {
			e.note("%s: unsafe.Pointer conversion abstracted", e.curFn.String())
			e.set(st, x, e.freshVal(st, x.Name(), to))
			return
		}
	}
	// string <-> []byte / []rune
	if isString(ft) {
		if sl, ok := to.Underlying().(*types.Slice); ok {
			if eb, ok := sl.Elem().Underlying().(*types.Basic); ok && eb.Kind() == types.Uint8 {
				ref := e.allocRef(st)
				k, srt := e.elemKey(sl.Elem())
				m := e.memGet(st, k, srt)
				e.memSet(st, k, srt, fmt.Sprintf("(store %s %s (str-arr %s))", m, ref, v.S))
				e.setTerm(st, x, fmt.Sprintf("(mk-slice %s (str-off %s) (str-len %s) (str-len %s))", ref, v.S, v.S, v.S))
				return
			}
		}
	}
	if isString(to) {
		if sl, ok := ft.Underlying().(*types.Slice); ok {
			if eb, ok := sl.Elem().Underlying().(*types.Basic); ok && eb.Kind() == types.Uint8 {
				k, srt := e.elemKey(sl.Elem())
				m := e.memGet(st, k, srt)
				e.setTerm(st, x, fmt.Sprintf("(mk-str (select %s (s-base %s)) (s-off %s) (s-len %s))", m, v.S, v.S, v.S))
				return
			}
		}
	}
	if _, ok := to.Underlying().(*types.Pointer); ok {
		if v.A == nil && v.S != "" && e.sc.sortOf(ft) == "Int" {
			if _, isPtr := ft.Underlying().(*types.Pointer); isPtr {
				e.set(st, x, Val{T: to, S: v.S})
				return
			}
		}
		e.note("%s: pointer conversion abstracted", e.curFn.String())
	}
	if e.sc.sortOf(ft) == e.sc.sortOf(to) && v.A == nil && v.Fn == nil && v.Tup == nil {
		e.set(st, x, Val{T: to, S: v.S})
		return
	}
	e.set(st, x, e.freshVal(st, x.Name(), to))
}

func (e *Exec) convInt(st *State, s string, fw int, fsigned bool, tw int, tsigned bool, x ssa.Value) string {
	if e.mode == ModeInt {
		// narrowing / sign change must be lossless (obligation)
		lo, hi := intRange(tw, tsigned)
		flo, fhi := intRange(fw, fsigned)
		if !(rangeWithin(flo, fhi, lo, hi)) {
			e.check(st, "overflow", "conv:"+e.srcText(x.Pos()), fmt.Sprintf("(and (<= %s %s) (<= %s %s))", lo, s, s, hi), x.Pos())
		}
		return s
	}
	switch {
	case tw == fw:
		return s
	case tw < fw:
		return fmt.Sprintf("((_ extract %d 0) %s)", tw-1, s)
	case fsigned:
		return fmt.Sprintf("((_ sign_extend %d) %s)", tw-fw, s)
	default:
		return fmt.Sprintf("((_ zero_extend %d) %s)", tw-fw, s)
	}
}

func rangeWithin(flo, fhi, lo, hi string) bool {
	p := func(s string) *big.Int {
		s = strings.TrimSuffix(strings.TrimPrefix(s, "(- "), ")")
		n, _ := new(big.Int).SetString(s, 10)
		return n
	}
	neg := func(s string) bool { return strings.HasPrefix(s, "(- ") }
	a, b, c, d := p(flo), p(fhi), p(lo), p(hi)
	if neg(flo) {
		a.Neg(a)
	}
	if neg(lo) {
		c.Neg(c)
	}
	return a.Cmp(c) >= 0 && b.Cmp(d) <= 0
}

// ---------- type assertions ----------

func (e *Exec) implPred(iface types.Type) string {
	name := "impl." + sanitize(types.TypeString(iface, nil))
	if !e.sc.funs[name] {
		e.sc.funs[name] = true
		e.sc.emit(fmt.Sprintf("(declare-fun %s (Int) Bool)", name))
		e.sc.emit(fmt.Sprintf("(assert (not (%s 0)))", name))
	}
	return name
}

func (e *Exec) typeAssert(st *State, x *ssa.TypeAssert) {
	v := e.val(st, x.X)
	at := x.AssertedType
	var okTerm string
	var res string
	if it, isI := at.Underlying().(*types.Interface); isI {
		if it.NumMethods() == 0 {
			okTerm = fmt.Sprintf("(not (= (i-tag %s) 0))", v.S)
		} else {
			p := e.implPred(at)
			okTerm = fmt.Sprintf("(%s (i-tag %s))", p, v.S)
			e.implAxioms(at, it, p)
			// ordinary error values (fmt.Errorf, errors.New, the framer's panics) implement
			// error and are not runtime.Error (ground instance for this operand)
			switch types.TypeString(at, nil) {
			case "runtime.Error":
				e.sc.assert(fmt.Sprintf("(=> (%s (i-tag %s)) (not %s))", e.softTagPred(), v.S, okTerm))
			case "error":
				e.sc.assert(fmt.Sprintf("(=> (%s (i-tag %s)) %s)", e.softTagPred(), v.S, okTerm))
			}
		}
		res = v.S
	} else {
		tag := e.sc.typeTag(at)
		okTerm = fmt.Sprintf("(= (i-tag %s) %d)", v.S, tag)
		res = e.sc.unbox(at, "(i-pay "+v.S+")")
	}
	okN := e.sc.define(x.Name()+".ok", "Bool", okTerm)
	// destination pointers handed in by the application are non-nil
	// (contract flag `nonnil_payload <param>`; an assumption about the caller, not about network input)
	if _, isPtr := at.Underlying().(*types.Pointer); isPtr {
		if prm, ok := x.X.(*ssa.Parameter); ok {
			fc := e.fc
			if e.curFn != e.fn {
				fc = e.eng.contractFor(e.curFn)
			}
			if fc != nil {
				for _, cl := range fc.Lists["nonnil_payload"] {
					if strings.TrimSpace(cl.Expr) == prm.Name() {
						e.assume(st, imp(okN, fmt.Sprintf("(not (= %s 0))", res)))
					}
				}
			}
		}
	}
	if x.CommaOk {
		rv := Val{T: at, S: e.sc.define(x.Name(), e.sc.sortOf(at), ite(okN, res, e.sc.zero(at)))}
		e.assumeWF(st, rv)
		e.set(st, x, Val{T: x.Type(), Tup: []Val{rv, {T: types.Typ[types.Bool], S: okN}}})
		return
	}
	e.check(st, "assert", e.srcText(x.Pos()), okN, x.Pos())
	rv := Val{T: at, S: e.sc.define(x.Name(), e.sc.sortOf(at), res)}
	e.assumeWF(st, rv)
	e.set(st, x, rv)
}

// implAxioms asserts, for every concrete type known (repository types and all
// dynamic types that have a tag in this script), whether it implements iface.
func (e *Exec) implAxioms(at types.Type, it *types.Interface, pred string) {
	if _, done := e.sc.implPreds[pred]; !done {
		e.sc.implPreds[pred] = it
	}
	for i, t := range e.sc.tagTypes {
		e.sc.implAxiom(pred, it, t, i+1)
	}
	for _, ct := range e.eng.concreteTypes {
		e.sc.typeTag(ct) // the tag creation emits the axiom
	}
}

// ---------- panics ----------

func (e *Exec) panicInstr(st *State, x *ssa.Panic) []Exit {
	// classify: soft (error value, the framer's error channel) or hard
	soft := false
	var src ssa.Value = x.X
	for {
		if ci, ok := src.(*ssa.ChangeInterface); ok {
			if types.Implements(ci.X.Type(), errorIface) {
				soft = true
			}
			src = ci.X
			continue
		}
		if mi, ok := src.(*ssa.MakeInterface); ok {
			if types.Implements(mi.X.Type(), errorIface) {
				soft = true
			}
		}
		break
	}
	if types.Implements(x.X.Type(), errorIface) {
		soft = true
	}
	if soft {
		pv := e.val(st, x.X)
		// an explicit panic(err) with an error built by the driver: not a runtime.Error
		e.assume(st, fmt.Sprintf("(%s (i-tag %s))", e.softTagPred(), pv.S))
		return e.softExit(st, pv.S)
	}
	if e.recvDepth > 0 {
		// re-panic inside a recovering deferred closure: hard by construction
	}
	// `explicit_panic_refuses`: the contract declares that this function refuses an input by an
	// explicit panic with a non-error value (panic("...")): an exit like a soft panic (soft_panic()
	// is true, the caller's contract must allow it), not a reachability violation
	fcx := e.fc
	if e.curFn != nil && e.curFn != e.fn {
		fcx = e.eng.contractFor(e.curFn)
	}
	if fcx != nil {
		if _, ok := fcx.Flags["explicit_panic_refuses"]; ok {
			pv := e.freshVal(st, "refusal", types.NewInterfaceType(nil, nil))
			e.assume(st, fmt.Sprintf("(%s (i-tag %s))", e.softTagPred(), pv.S))
			return e.softExit(st, pv.S)
		}
	}
	e.check(st, "panic", e.srcText(x.Pos()), "false", x.Pos())
	return nil
}

func (e *Exec) softExit(st *State, pv string) []Exit {
	return []Exit{{kind: exitSoft, st: st, pv: pv}}
}

// abstractMul: does the contract of the function under verification ask for
// multiplications of this Go type to be abstracted (`abstract_mul int64`)?
func (e *Exec) abstractMul(t types.Type) bool { return e.abstractFlag("abstract_mul", t) }

// sremAbstract: signed remainder by a non-constant divisor as an uninterpreted
// function constrained only by 0 <= a, 0 < b ==> 0 <= r < b (`abstract_rem int`).
// Sound: bvsrem satisfies the constraint, so a proof for every such function covers it.
func (e *Exec) sremAbstract(a, b string) string {
	e.eng.spec.need(e.sc, "srem64")
	r := fmt.Sprintf("(srem64 %s %s)", a, b)
	if strings.Contains(r, "q.") {
		// under a quantifier: the range fact as a pattern-triggered axiom (once per script)
		if !e.sc.declsrt["srem:axiom"] {
			e.sc.declsrt["srem:axiom"] = true
			z := "#x0000000000000000"
			e.sc.emit(fmt.Sprintf("(assert (forall ((a (_ BitVec 64)) (b (_ BitVec 64))) (! (=> (and (bvsge a %s) (bvsgt b %s)) (and (bvsge (srem64 a b) %s) (bvslt (srem64 a b) b) (=> (bvslt a b) (= (srem64 a b) a)))) :pattern ((srem64 a b)))))", z, z, z))
		}
		return r
	}
	k := "srem:" + r
	if !e.sc.declsrt[k] {
		e.sc.declsrt[k] = true
		z := "#x0000000000000000"
		e.sc.assert(fmt.Sprintf("(=> (and (bvsge %s %s) (bvsgt %s %s)) (and (bvsge %s %s) (bvslt %s %s) (=> (bvslt %s %s) (= %s %s))))", a, z, b, z, r, z, r, b, a, b, r, a))
	}
	return r
}

func (e *Exec) abstractFlag(flag string, t types.Type) bool {
	fc := e.fc
	if e.curFn != nil && e.curFn != e.fn {
		fc = e.eng.contractFor(e.curFn)
		if fc == nil {
			fc = e.fc
		}
	}
	if fc == nil {
		return false
	}
	want, ok := fc.Flags[flag]
	if !ok {
		return false
	}
	b, ok := types.Unalias(t).(*types.Basic)
	return ok && b.Name() == strings.TrimSpace(want)
}

// closureRequires: a closure under contract keeps its captured cells in the state its
// `requires` describes (the closure's own ensures re-establish it on every call). Where the
// closure is created, the clauses over captured variables become obligations of the creator.
func (e *Exec) closureRequires(st *State, x *ssa.MakeClosure, f *ssa.Function, bs []Val) {
	if e.curFn != nil && e.curFn != e.fn {
		return
	}
	cc := e.eng.contractFor(f)
	if cc == nil || len(f.Params) > 0 {
		return
	}
	if _, tr := cc.Flags["trusted"]; tr {
		return
	}
	for k, cl := range cc.Requires {
		c := e.specEnv(st, nil)
		c.vars = map[string]Val{}
		for i, fv := range f.FreeVars {
			if i < len(bs) {
				c.vars[fv.Name()] = bs[i]
			}
		}
		c.where = fmt.Sprintf("%s:%d", cl.File, cl.Line)
		t, err := c.evalBool(cl.Expr)
		if err != nil {
			panic(fmt.Sprintf("closure requires of %s at creation: %v", f.Name(), err))
		}
		e.checkPost(st, "closure-requires", fmt.Sprintf("%s.%d", f.Name(), k), t, cl.Props, c.where)
	}
}

// atReturn: `at_return: expr` clauses are obligations at every return instruction of the function
// under verification, over its parameters and the local variables visible there (what a
// postcondition cannot mention, e.g. the index a lookup settled on).
func (e *Exec) atReturn(st *State, x *ssa.Return, rs []Val) {
	if e.fc == nil || e.curFn != e.fn || len(e.fc.Lists["at_return"]) == 0 {
		return
	}
	for i, cl := range e.fc.Lists["at_return"] {
		c := e.specEnv(st, e.entry)
		dummy := &loopInfo{header: x.Block(), body: map[*ssa.BasicBlock]bool{}}
		for k, v := range e.loopVars(e.fn, dummy, st, x.Block()) {
			if _, isParam := c.vars[k]; !isParam {
				c.vars[k] = v
			}
		}
		c.where = fmt.Sprintf("%s:%d", cl.File, cl.Line)
		c.results = rs // result / result0.. are the values being returned here
		t, err := c.evalBool(strings.TrimSpace(cl.Expr))
		if err != nil {
			// the clause talks about a variable that does not exist (or has another type: the
			// bindings of a type switch) on this return path; every clause must apply somewhere
			// (checked after the run)
			continue
		}
		if e.atReturnHits == nil {
			e.atReturnHits = map[int]int{}
		}
		e.atReturnHits[i]++
		if st.pc != "false" {
			// reachability of this return (the clause is vacuous only if none of the returns it applies to is reachable)
			e.siteCovers = append(e.siteCovers, &Obligation{Name: fmt.Sprintf("%s%s#cover#return:%d@%s", e.fn.String(), scenSuffix(e.sct.name), i, e.eng.posString(x.Pos())), Kind: "cover", Func: e.fn.String(),
				Prefix: e.sc.mark(), Goal: "false", PC: st.pc, Script: e.sc, Expect: "sat", Props: e.propsDef, Site: true, Pos: e.eng.posString(x.Pos()),
				Group: fmt.Sprintf("%s%s#at_return#%d (%s:%d)", e.fn.String(), scenSuffix(e.sct.name), i, cl.File, cl.Line)})
		}
		saved := e.propsDef
		if len(cl.Props) > 0 {
			e.propsDef = cl.Props
		}
		e.check(st, "at-return", fmt.Sprintf("%d", i), t, x.Pos())
		e.propsDef = saved
	}
}

// closureBool evaluates a one-argument predicate closure at arg under the extra guard, on a copy
// of the state (the closure must not write: checked by its static footprint).
func (e *Exec) closureBool(st *State, fv Val, arg Val, guard string) (string, bool) {
	if fv.Fn == nil || len(fv.Fn.Params) != 1 {
		return "", false
	}
	fp := e.eng.footprint(fv.Fn, e.sc)
	if fp.all {
		return "", false
	}
	for k := range fp.keys {
		if fp.old[k] {
			return "", false
		}
	}
	s2 := st.clone()
	s2.pc = e.sc.define("pc", "Bool", and(st.pc, guard))
	key := &ssa.Parameter{}
	ok, _ := e.inlineCall(s2, fv.Fn, fv, []Val{arg}, key)
	if !ok {
		return "", false
	}
	v, has := s2.vals[key]
	if !has || v.S == "" {
		return "", false
	}
	return v.S, true
}
