package main

// Replay of solver counterexamples against the real code.
//
// For a refuted obligation (`sat`) of a function whose inputs can be rebuilt from a model
// - scalars, strings, byte slices, and (pointers to) structs of those, two levels deep - the
// engine asks the solver for the values of the input leaves, writes an in-package Go test
// that builds those inputs and calls the real function, and runs it through `go test
// -overlay` (nothing is written into the repository). The violation counts as reproduced
//   * for a safety obligation (index, slice, nil, division, type assertion, nil map): if the
//     call panics with a runtime error;
//   * for a postcondition (`ensures`) that translates to Go (no quantifiers, no ghosts): if
//     the translated postcondition evaluates to false on the real result.
// Everything else stays "no-failing-input-found". Inputs the model constrains but the test
// cannot rebuild (interfaces, maps, channels, deeper pointers) are left zero; then the replay
// may simply not reproduce, which is reported as such, never as a pass.

import (
	"encoding/json"
	"fmt"
	"go/ast"
	"go/parser"
	"go/types"
	"math/big"
	"os"
	"os/exec"
	"path/filepath"
	"sort"
	"strconv"
	"strings"

	"golang.org/x/tools/go/ssa"
)

const replayBytes = 96 // content bytes rebuilt per string / byte slice

type inputLeaf struct {
	Path string // Go lvalue: "p", "f.buf", ...
	Kind string // scalar | strlen | strbyte | slbase | sllen | slbyte | ptr
	Idx  int
	Term string
	GoT  string // Go type of the lvalue (scalar, string, []byte, pointer)
	Sign bool   // signed integer
	Bits int
	Bool bool
}

type replayPlan struct {
	leaves  []inputLeaf
	roots   []replayRoot // parameters in order (receiver first)
	partial []string     // inputs left zero (types the test cannot rebuild)
	pre     []string     // declarations before the leaves are assigned
	post    []string     // statements after the leaves are assigned (boxing of scenario values)
	imports map[string]string
	ok      bool
	why     string
}

type replayRoot struct {
	Name string
	T    types.Type
}

func (e *Exec) qualifier() types.Qualifier {
	return func(p *types.Package) string {
		if e.fn.Pkg != nil && p == e.fn.Pkg.Pkg {
			return ""
		}
		if e.plan != nil {
			e.plan.imports[p.Path()] = p.Name()
		}
		return p.Name()
	}
}

func basicInfo(t types.Type) (isBool, isInt, signed bool, bits int, isStr bool) {
	b, ok := t.Underlying().(*types.Basic)
	if !ok {
		return
	}
	switch b.Kind() {
	case types.Bool:
		isBool = true
	case types.String:
		isStr = true
	case types.Int, types.Int64:
		isInt, signed, bits = true, true, 64
	case types.Int32:
		isInt, signed, bits = true, true, 32
	case types.Int16:
		isInt, signed, bits = true, true, 16
	case types.Int8:
		isInt, signed, bits = true, true, 8
	case types.Uint, types.Uint64, types.Uintptr:
		isInt, bits = true, 64
	case types.Uint32:
		isInt, bits = true, 32
	case types.Uint16:
		isInt, bits = true, 16
	case types.Uint8:
		isInt, bits = true, 8
	}
	return
}

// describeInput adds the leaves of one input value (term of the sort of T in the entry state).
func (e *Exec) describeInput(st *State, path string, T types.Type, term string, depth int) {
	pl := e.plan
	gt := types.TypeString(T, e.qualifier())
	isBool, isInt, signed, bits, isStr := basicInfo(T)
	switch {
	case isBool:
		pl.leaves = append(pl.leaves, inputLeaf{Path: path, Kind: "scalar", Term: term, GoT: gt, Bool: true})
		return
	case isInt:
		if e.mode != ModeBV {
			bits = 0
		}
		pl.leaves = append(pl.leaves, inputLeaf{Path: path, Kind: "scalar", Term: term, GoT: gt, Sign: signed, Bits: bits})
		return
	case isStr:
		pl.leaves = append(pl.leaves, inputLeaf{Path: path, Kind: "strlen", Term: "(str-len " + term + ")", GoT: gt})
		for i := 0; i < replayBytes; i++ {
			pl.leaves = append(pl.leaves, inputLeaf{Path: path, Kind: "strbyte", Idx: i, GoT: gt,
				Term: fmt.Sprintf("(select (str-arr %s) %s)", term, e.add("(str-off "+term+")", e.sc.idxLit(int64(i))))})
		}
		return
	}
	switch u := T.Underlying().(type) {
	case *types.Slice:
		if _, isI, _, b, _ := basicInfo(u.Elem()); isI && b == 8 && e.mode == ModeBV {
			k, srt := e.elemKey(u.Elem())
			m := e.memGet(st, k, srt)
			pl.leaves = append(pl.leaves, inputLeaf{Path: path, Kind: "slbase", Term: "(s-base " + term + ")", GoT: gt})
			pl.leaves = append(pl.leaves, inputLeaf{Path: path, Kind: "sllen", Term: "(s-len " + term + ")", GoT: gt})
			for i := 0; i < replayBytes; i++ {
				pl.leaves = append(pl.leaves, inputLeaf{Path: path, Kind: "slbyte", Idx: i, GoT: gt,
					Term: fmt.Sprintf("(select (select %s (s-base %s)) %s)", m, term, e.add("(s-off "+term+")", e.sc.idxLit(int64(i))))})
			}
			return
		}
	case *types.Array:
		if _, isI, _, b, _ := basicInfo(u.Elem()); isI && b == 8 && e.mode == ModeBV && u.Len() <= 64 {
			for i := 0; i < int(u.Len()); i++ {
				pl.leaves = append(pl.leaves, inputLeaf{Path: fmt.Sprintf("%s[%d]", path, i), Kind: "scalar", GoT: types.TypeString(u.Elem(), e.qualifier()), Bits: 8,
					Term: fmt.Sprintf("(select %s %s)", term, e.sc.idxLit(int64(i)))})
			}
			return
		}
	case *types.Pointer:
		if su, ok := u.Elem().Underlying().(*types.Struct); ok && depth < 2 {
			pl.leaves = append(pl.leaves, inputLeaf{Path: path, Kind: "ptr", Term: term, GoT: types.TypeString(u.Elem(), e.qualifier())})
			for i := 0; i < su.NumFields(); i++ {
				f := su.Field(i)
				if f.Name() == "_" {
					continue
				}
				if f.Pkg() != nil && e.fn.Pkg != nil && f.Pkg() != e.fn.Pkg.Pkg && !f.Exported() {
					pl.partial = append(pl.partial, path+"."+f.Name())
					continue
				}
				hk, hs := e.heapKey(u.Elem(), i)
				ft := fmt.Sprintf("(select %s %s)", e.memGet(st, hk, hs), term)
				e.describeInput(st, path+"."+f.Name(), f.Type(), ft, depth+1)
			}
			return
		}
	case *types.Struct:
		if depth < 2 {
			key := structKey(T)
			for i := 0; i < u.NumFields(); i++ {
				f := u.Field(i)
				if f.Name() == "_" {
					continue
				}
				if f.Pkg() != nil && e.fn.Pkg != nil && f.Pkg() != e.fn.Pkg.Pkg && !f.Exported() {
					pl.partial = append(pl.partial, path+"."+f.Name())
					continue
				}
				e.describeInput(st, path+"."+f.Name(), f.Type(), fmt.Sprintf("(%s %s)", fieldSel(key, i, f.Name()), term), depth+1)
			}
			return
		}
	}
	pl.partial = append(pl.partial, path)
}

// planReplay is called at the entry state of the function under verification.
func (e *Exec) planReplay(st *State) {
	fn := e.fn
	e.plan = &replayPlan{imports: map[string]string{}}
	pl := e.plan
	if fn.Parent() != nil || fn.Pkg == nil || fn.Signature.Variadic() || len(fn.FreeVars) > 0 || fn.Signature.TypeParams() != nil || fn.Signature.RecvTypeParams() != nil {
		pl.why = "closure, variadic or generic function"
		return
	}
	if !strings.HasPrefix(fn.Pkg.Pkg.Path(), "github.com/gocql/gocql") || strings.HasPrefix(fn.Pkg.Pkg.Path(), "github.com/gocql/gocql/lz4") {
		pl.why = "function outside the main module"
		return
	}
	if len(pl.leaves) > 0 {
		return
	}
	defer func() {
		if r := recover(); r != nil {
			pl.ok = false
			pl.why = fmt.Sprint("input description failed: ", r)
		}
	}()
	for _, p := range fn.Params {
		v, ok := st.vals[p]
		if !ok || v.S == "" {
			pl.why = "parameter without a first-order value"
			return
		}
		name := p.Name()
		if name == "" || name == "_" {
			name = fmt.Sprintf("arg%d", len(pl.roots))
		}
		pl.roots = append(pl.roots, replayRoot{Name: name, T: p.Type()})
		if _, isIface := p.Type().Underlying().(*types.Interface); isIface {
			if stT, ok := e.sct.types[p.Name()]; ok {
				// the type scenario fixes the dynamic type of this interface parameter
				if pt, isPtr := stT.Underlying().(*types.Pointer); isPtr {
					pl.post = append(pl.post, fmt.Sprintf("%s = new(%s)", name, types.TypeString(pt.Elem(), e.qualifier())))
				} else {
					tmp := name + "_v"
					pl.pre = append(pl.pre, fmt.Sprintf("var %s %s", tmp, types.TypeString(stT, e.qualifier())))
					pl.post = append(pl.post, fmt.Sprintf("%s = %s", name, tmp))
					e.describeInput(st, tmp, stT, e.sc.unbox(stT, "(i-pay "+v.S+")"), 0)
				}
				continue
			}
			if types.TypeString(p.Type(), nil) == "github.com/gocql/gocql.TypeInfo" {
				// any type descriptor will do as long as the precondition holds on it (checked by the test)
				pl.post = append(pl.post, fmt.Sprintf("%s = NativeType{proto: 4}", name))
				pl.partial = append(pl.partial, name+" (a fixed NativeType)")
				continue
			}
		}
		e.describeInput(st, name, p.Type(), v.S, 0)
	}
	pl.ok = len(pl.leaves) > 0 && len(pl.leaves) < 4000
	if !pl.ok {
		pl.why = "no rebuildable input"
	}
}

// ---------- values ----------

func modelValue(v string) (*big.Int, bool, bool) { // value, isBool(value!=0 means true), ok
	v = strings.TrimSpace(v)
	switch {
	case v == "true":
		return big.NewInt(1), true, true
	case v == "false":
		return big.NewInt(0), true, true
	case strings.HasPrefix(v, "#x"):
		n, ok := new(big.Int).SetString(v[2:], 16)
		return n, false, ok
	case strings.HasPrefix(v, "#b"):
		n, ok := new(big.Int).SetString(v[2:], 2)
		return n, false, ok
	case strings.HasPrefix(v, "(- ") && strings.HasSuffix(v, ")"):
		n, ok := new(big.Int).SetString(strings.TrimSpace(v[3:len(v)-1]), 10)
		if ok {
			n.Neg(n)
		}
		return n, false, ok
	case strings.HasPrefix(v, "(_ bv"):
		f := strings.Fields(strings.Trim(v, "()"))
		if len(f) >= 2 {
			n, ok := new(big.Int).SetString(strings.TrimPrefix(f[1], "bv"), 10)
			return n, false, ok
		}
	}
	n, ok := new(big.Int).SetString(v, 10)
	return n, false, ok
}

func signedOf(n *big.Int, bits int) *big.Int {
	if bits <= 0 {
		return n
	}
	half := new(big.Int).Lsh(big.NewInt(1), uint(bits-1))
	if n.Cmp(half) >= 0 {
		return new(big.Int).Sub(n, new(big.Int).Lsh(big.NewInt(1), uint(bits)))
	}
	return n
}

// ---------- test generation ----------

type replayOutcome struct {
	Tried      bool   `json:"tried"`
	Confirmed  bool   `json:"confirmed"`
	Reason     string `json:"reason"`
	TestSource string `json:"test_source,omitempty"`
	Output     string `json:"output,omitempty"`
	Package    string `json:"package,omitempty"`
}

var panicKinds = map[string]bool{"index": true, "slice": true, "nil": true, "div": true, "assert": true, "nilmap": true, "shift": true, "conv": true}

func (r *Report) replayObligation(o *Obligation, fr *FuncResult) replayOutcome {
	out := replayOutcome{}
	pl := fr.Plan
	if pl == nil || !pl.ok {
		if pl != nil {
			out.Reason = "inputs cannot be rebuilt: " + pl.why
		} else {
			out.Reason = "no replay plan"
		}
		return out
	}
	var post string
	if o.Kind == "ensures" {
		cl := ""
		if fr.Contract != nil {
			for _, c := range fr.Contract.Ensures {
				if fmt.Sprintf("%s:%d", c.File, c.Line) == o.Pos {
					cl = c.Expr
				}
			}
		}
		if cl == "" {
			out.Reason = "postcondition text not found"
			return out
		}
		tr := &goTranslator{fr: fr, eng: r.eng}
		p, err := tr.translate(fr.Sct.subst(cl))
		if err != nil {
			out.Reason = "postcondition not translatable to Go: " + err.Error()
			return out
		}
		post = p
		defer func() {}()
		out.Reason = ""
		return r.runReplay(o, fr, pl, post, tr.olds)
	}
	if !panicKinds[o.Kind] {
		out.Reason = "obligation kind " + o.Kind + " has no executable meaning"
		return out
	}
	return r.runReplay(o, fr, pl, "", nil)
}

func (r *Report) runReplay(o *Obligation, fr *FuncResult, pl *replayPlan, post string, olds []string) replayOutcome {
	out := replayOutcome{Tried: true}
	// the rebuilt input must satisfy the function's precondition (the model does; what the test
	// rebuilds may not, when some inputs are left zero)
	pre := "true"
	preComplete := true
	if fr.Contract != nil {
		for _, c := range fr.Contract.Requires {
			tr := &goTranslator{fr: fr, eng: r.eng}
			p, err := tr.translate(fr.Sct.subst(c.Expr))
			if err != nil || len(tr.olds) > 0 {
				preComplete = false
				continue
			}
			pre += " && func() (ok bool) { defer func() { if recover() != nil { ok = false } }(); return " + p + " }()"
		}
	}
	if !preComplete && len(pl.partial) > 0 {
		out.Reason = "some inputs cannot be rebuilt (" + strings.Join(pl.partial, ", ") + ") and the precondition cannot be evaluated on the rebuilt ones"
		return out
	}
	// 1. model of the leaves
	var terms []string
	for _, l := range pl.leaves {
		terms = append(terms, l.Term)
	}
	script := o.scriptText(false)
	// a counterexample the test can rebuild: strings and slices within the bytes the model query
	// fetches, else of at most 4096 bytes, if there is one
	bounds := func(n int) string {
		var small strings.Builder
		for _, l := range pl.leaves {
			if l.Kind == "sllen" || l.Kind == "strlen" {
				if o.Script.mode == ModeBV {
					fmt.Fprintf(&small, "(assert (bvule %s #x%016x))\n", l.Term, n)
				} else {
					fmt.Fprintf(&small, "(assert (<= %s %d))\n", l.Term, n)
				}
			}
		}
		return small.String()
	}
	query := func(extra string) SolveResult {
		var b strings.Builder
		sc := script
		if k := strings.LastIndex(sc, "(check-sat)"); k >= 0 && extra != "" {
			sc = sc[:k] + extra + sc[k:]
		}
		b.WriteString(sc)
		for i := 0; i < len(terms); i += 200 {
			j := i + 200
			if j > len(terms) {
				j = len(terms)
			}
			fmt.Fprintf(&b, "(get-value (%s))\n", strings.Join(terms[i:j], " "))
		}
		return runSolver(solvers[0], b.String(), 60)
	}
	res := query(bounds(replayBytes))
	if res.Status != "sat" {
		res = query(bounds(4096))
	}
	if res.Status != "sat" {
		res = query("")
	}
	if res.Status != "sat" {
		out.Reason = "model query answered " + res.Status
		return out
	}
	vals := map[string]string{}
	for _, blk := range strings.Split(res.Output, "\n((")[1:] {
		for _, it := range splitSexprs("(" + blk) {
			it = strings.TrimSpace(it)
			if !strings.HasPrefix(it, "(") {
				continue
			}
			ch, ok := sexprChildren(it)
			if ok && len(ch) == 2 {
				vals[ch[0]] = ch[1]
			}
		}
	}
	norm := func(t string) string { return strings.Join(strings.Fields(t), " ") }
	nv := map[string]string{}
	for k, v := range vals {
		nv[norm(k)] = v
	}
	get := func(t string) (*big.Int, bool) {
		v, ok := nv[norm(t)]
		if !ok {
			return nil, false
		}
		n, _, ok := modelValue(v)
		return n, ok
	}
	// 2. Go statements that rebuild the inputs
	var decl strings.Builder
	fn := fr.Fn
	qual := func(p *types.Package) string {
		if p == fn.Pkg.Pkg {
			return ""
		}
		pl.imports[p.Path()] = p.Name()
		return p.Name()
	}
	for _, rt := range pl.roots {
		fmt.Fprintf(&decl, "\tvar %s %s\n", rt.Name, types.TypeString(rt.T, qual))
	}
	for _, l := range pl.pre {
		fmt.Fprintf(&decl, "\t%s\n", l)
	}
	nilPtr := map[string]bool{}
	strs := map[string][]byte{}
	strLen := map[string]int64{}
	sls := map[string][]byte{}
	slLen := map[string]int64{}
	slNil := map[string]bool{}
	var order []string
	for _, l := range pl.leaves {
		skip := false
		for p := range nilPtr {
			if strings.HasPrefix(l.Path, p+".") {
				skip = true
			}
		}
		if skip {
			continue
		}
		n, ok := get(l.Term)
		switch l.Kind {
		case "ptr":
			if !ok || n.Sign() == 0 {
				nilPtr[l.Path] = true
				continue
			}
			fmt.Fprintf(&decl, "\t%s = new(%s)\n", l.Path, l.GoT)
		case "scalar":
			if !ok {
				continue
			}
			if l.Bool {
				fmt.Fprintf(&decl, "\t%s = %v\n", l.Path, n.Sign() != 0)
			} else {
				if l.Sign {
					n = signedOf(n, l.Bits)
				}
				fmt.Fprintf(&decl, "\t%s = %s(%s)\n", l.Path, l.GoT, n.String())
			}
		case "strlen":
			if ok {
				strLen[l.Path] = n.Int64()
				order = append(order, "s:"+l.Path+":"+l.GoT)
			}
		case "strbyte":
			if ok {
				strs[l.Path] = append(strs[l.Path], byte(n.Int64()))
			} else {
				strs[l.Path] = append(strs[l.Path], 0)
			}
		case "slbase":
			if ok && n.Sign() == 0 {
				slNil[l.Path] = true
			}
		case "sllen":
			if ok {
				slLen[l.Path] = n.Int64()
				order = append(order, "b:"+l.Path+":"+l.GoT)
			}
		case "slbyte":
			if ok {
				sls[l.Path] = append(sls[l.Path], byte(n.Int64()))
			} else {
				sls[l.Path] = append(sls[l.Path], 0)
			}
		}
	}
	lit := func(bs []byte, n int64) string {
		if int64(len(bs)) > n {
			bs = bs[:n]
		}
		var p []string
		for _, c := range bs {
			p = append(p, strconv.Itoa(int(c)))
		}
		return strings.Join(p, ", ")
	}
	for _, it := range order {
		f := strings.SplitN(it, ":", 3)
		path, gt := f[1], f[2]
		if f[0] == "s" {
			n := strLen[path]
			if n < 0 || n > 1<<16 {
				out.Reason = fmt.Sprintf("model needs a string of %d bytes: not rebuilt", n)
				return out
			}
			fmt.Fprintf(&decl, "\t{ b := make([]byte, %d); copy(b, []byte{%s}); %s = %s(b) }\n", n, lit(strs[path], n), path, gt)
		} else {
			n := slLen[path]
			if slNil[path] {
				continue
			}
			if n < 0 || n > 1<<16 {
				out.Reason = fmt.Sprintf("model needs a slice of %d bytes: not rebuilt", n)
				return out
			}
			fmt.Fprintf(&decl, "\t{ b := make([]byte, %d); copy(b, []byte{%s}); %s = %s(b) }\n", n, lit(sls[path], n), path, gt)
		}
	}
	for _, l := range pl.post {
		fmt.Fprintf(&decl, "\t%s\n", l)
	}
	// 3. the call
	sig := fn.Signature
	var args []string
	for i, rt := range pl.roots {
		if i == 0 && sig.Recv() != nil {
			continue
		}
		args = append(args, rt.Name)
	}
	call := fn.Name() + "(" + strings.Join(args, ", ") + ")"
	if sig.Recv() != nil {
		call = pl.roots[0].Name + "." + call
	}
	var rnames, rtypes []string
	for i := 0; i < sig.Results().Len(); i++ {
		rnames = append(rnames, fmt.Sprintf("r%d", i))
		rtypes = append(rtypes, types.TypeString(sig.Results().At(i).Type(), qual))
	}
	var src strings.Builder
	pkgName := fn.Pkg.Pkg.Name()
	fmt.Fprintf(&src, "package %s\n\n// generated by govc: replay of the counterexample for\n//   %s\n\nimport (\n\t\"fmt\"\n\t\"reflect\"\n\t\"runtime\"\n\t\"testing\"\n", pkgName, o.Name)
	var imps []string
	for p, n := range pl.imports {
		if p != "fmt" && p != "reflect" && p != "runtime" && p != "testing" {
			imps = append(imps, fmt.Sprintf("\t%s %q\n", n, p))
		}
	}
	sort.Strings(imps)
	for _, i := range imps {
		src.WriteString(i)
	}
	src.WriteString(")\n\n")
	src.WriteString(replayHelpers)
	src.WriteString("func TestVerifReplay(t *testing.T) {\n")
	src.WriteString(decl.String())
	for _, rt := range pl.roots {
		fmt.Fprintf(&src, "\t_ = %s\n", rt.Name)
	}
	for i, od := range olds {
		fmt.Fprintf(&src, "\told%d := %s\n\tverifUnalias(&old%d)\n", i, od, i)
	}
	for i := 0; i < sig.Results().Len(); i++ {
		fmt.Fprintf(&src, "\tvar r%d %s\n\t_ = r%d\n", i, rtypes[i], i)
	}
	fmt.Fprintf(&src, "\tfmt.Printf(\"REPLAY pre=%%v\\n\", %s)\n", pre)
	src.WriteString("\tpanicked, runtimeErr := false, false\n\tvar pv interface{}\n\tfunc() {\n\t\tdefer func() {\n\t\t\tif r := recover(); r != nil {\n\t\t\t\tpanicked, pv = true, r\n\t\t\t\t_, runtimeErr = r.(runtime.Error)\n\t\t\t}\n\t\t}()\n")
	if len(rnames) > 0 {
		fmt.Fprintf(&src, "\t\t%s = %s\n", strings.Join(rnames, ", "), call)
	} else {
		fmt.Fprintf(&src, "\t\t%s\n", call)
	}
	src.WriteString("\t}()\n\tsoftPanic := panicked && !runtimeErr\n\t_ = softPanic\n")
	src.WriteString("\tfmt.Printf(\"REPLAY panicked=%v runtime=%v value=%v\\n\", panicked, runtimeErr, pv)\n")
	if post != "" {
		fmt.Fprintf(&src, "\tif !runtimeErr {\n\t\tfmt.Printf(\"REPLAY post=%%v\\n\", %s)\n\t}\n", post)
	}
	src.WriteString("}\n")
	out.TestSource = src.String()
	// 4. run
	tmp, err := os.MkdirTemp("/var/tmp", "govc-replay-")
	if err != nil {
		out.Reason = err.Error()
		return out
	}
	defer os.RemoveAll(tmp)
	rel := strings.TrimPrefix(strings.TrimPrefix(fn.Pkg.Pkg.Path(), "github.com/gocql/gocql"), "/")
	dir := filepath.Join(r.eng.repo, rel)
	out.Package = fn.Pkg.Pkg.Path()
	output, reason := runReplayTest(tmp, dir, out.TestSource)
	out.Output = output
	if reason != "" {
		out.Reason = reason
		return out
	}
	panicText := map[string]string{"index": "index out of range", "slice": "slice bounds out of range", "nil": "nil pointer dereference", "nilmap": "nil map", "div": "divide by zero", "assert": "interface conversion", "shift": "negative shift", "conv": "out of range"}
	runtimePanic := strings.Contains(output, "REPLAY panicked=true runtime=true")
	switch {
	case !strings.Contains(output, "REPLAY pre=true"):
		out.Reason = "the rebuilt input does not satisfy the function's precondition (inputs left zero: " + strings.Join(pl.partial, ", ") + ")"
	case post == "" && runtimePanic && strings.Contains(output, panicText[o.Kind]) && !(o.Kind == "nil" && len(pl.partial) > 0):
		out.Confirmed = true
		out.Reason = "the real function panics (" + panicText[o.Kind] + ") on the model's input"
	case post != "" && strings.Contains(output, "REPLAY post=false"):
		out.Confirmed = true
		out.Reason = "the postcondition is false on the real function's result for the model's input"
	case post != "" && runtimePanic && len(pl.partial) == 0:
		out.Confirmed = true
		out.Reason = "the real function panics with a runtime error on the model's input"
	default:
		out.Reason = "the model's input (as far as it could be rebuilt) does not reproduce the failure"
		if len(pl.partial) > 0 {
			out.Reason += "; inputs left zero: " + strings.Join(pl.partial, ", ")
		}
	}
	return out
}

func runReplayTest(tmp, dir, source string) (string, string) {
	tf := filepath.Join(tmp, "zz_verif_replay_test.go")
	os.WriteFile(tf, []byte(source), 0644)
	ov, _ := json.Marshal(map[string]interface{}{"Replace": map[string]string{filepath.Join(dir, "zz_verif_replay_test.go"): tf}})
	ovPath := filepath.Join(tmp, "ov.json")
	os.WriteFile(ovPath, ov, 0644)
	cmd := exec.Command("go", "test", "-overlay", ovPath, "-vet=off", "-count=1", "-timeout", "60s", "-run", "^TestVerifReplay$", "-v", ".")
	cmd.Dir = dir
	cmd.Env = append(os.Environ(), "GOFLAGS=-mod=mod", "GOPROXY=off", "GOSUMDB=off", "GOTOOLCHAIN=local")
	ob, _ := cmd.CombinedOutput()
	output := firstLines(string(ob), 40)
	if strings.Contains(output, "[build failed]") || strings.Contains(output, "[setup failed]") {
		return output, "the replay test does not compile"
	}
	if !strings.Contains(output, "REPLAY panicked=") {
		return output, "the replay test did not run to its end"
	}
	return output, ""
}

const replayHelpers = `func verifUnalias(p interface{}) {
	v := reflect.ValueOf(p).Elem()
	if v.Kind() == reflect.Slice && !v.IsNil() {
		c := reflect.MakeSlice(v.Type(), v.Len(), v.Len())
		reflect.Copy(c, v)
		v.Set(c)
	}
}

func verifBytes(x interface{}) []byte {
	v := reflect.ValueOf(x)
	switch v.Kind() {
	case reflect.String:
		return []byte(v.String())
	case reflect.Slice:
		b := make([]byte, v.Len())
		for i := range b {
			b[i] = byte(v.Index(i).Uint())
		}
		return b
	case reflect.Array:
		b := make([]byte, v.Len())
		for i := range b {
			b[i] = byte(v.Index(i).Uint())
		}
		return b
	}
	return nil
}

func verifBE(x interface{}, off int, n int) uint64 {
	b := verifBytes(x)
	var r uint64
	for i := 0; i < n; i++ {
		var c byte
		if off+i >= 0 && off+i < len(b) {
			c = b[off+i]
		}
		r = r<<8 | uint64(c)
	}
	return r
}

func verifSame(a, b interface{}) bool {
	va, vb := reflect.ValueOf(a), reflect.ValueOf(b)
	if va.IsValid() && vb.IsValid() && (va.Kind() == reflect.Slice || va.Kind() == reflect.String) && (vb.Kind() == reflect.Slice || vb.Kind() == reflect.String) {
		return string(verifBytes(a)) == string(verifBytes(b))
	}
	return reflect.DeepEqual(a, b)
}

func verifImp(a, b bool) bool { return !a || b }

var _ = fmt.Sprint
var _ = runtime.GOOS

`

// ---------- postcondition -> Go ----------

type goTranslator struct {
	fr   *FuncResult
	eng  *Engine
	olds  []string
	subst []map[string]ast.Expr
	bound []string // quantified variables in scope
}

func (t *goTranslator) translate(expr string) (string, error) {
	x, err := parser.ParseExpr(rewriteImp(expr))
	if err != nil {
		return "", err
	}
	return t.tr(x, false)
}

// paramChain: a selector chain rooted at a parameter (f.buf, f.header.flags), not passing through a
// substituted predicate parameter.
func (t *goTranslator) paramChain(x ast.Expr) (string, bool) {
	switch v := x.(type) {
	case *ast.Ident:
		for i := len(t.subst) - 1; i >= 0; i-- {
			if a, ok := t.subst[i][v.Name]; ok {
				saved := t.subst
				t.subst = t.subst[:i]
				c, ok := t.paramChain(a)
				t.subst = saved
				return c, ok
			}
		}
		for _, b := range t.bound {
			if b == v.Name {
				return "", false
			}
		}
		for _, p := range t.fr.Fn.Params {
			if p.Name() == v.Name {
				return v.Name, true
			}
		}
	case *ast.ParenExpr:
		return t.paramChain(v.X)
	case *ast.SelectorExpr:
		if c, ok := t.paramChain(v.X); ok {
			return c + "." + v.Sel.Name, true
		}
	}
	return "", false
}

func (t *goTranslator) hoist(chain string) string {
	for i, o := range t.olds {
		if o == chain {
			return fmt.Sprintf("old%d", i)
		}
	}
	t.olds = append(t.olds, chain)
	return fmt.Sprintf("old%d", len(t.olds)-1)
}

func (t *goTranslator) resultName(n string) (string, bool) {
	sig := t.fr.Fn.Signature
	if n == "result" && sig.Results().Len() >= 1 {
		return "r0", true
	}
	if strings.HasPrefix(n, "result") {
		if k, err := strconv.Atoi(n[6:]); err == nil && k < sig.Results().Len() {
			return fmt.Sprintf("r%d", k), true
		}
	}
	for i := 0; i < sig.Results().Len(); i++ {
		if sig.Results().At(i).Name() == n && n != "" {
			return fmt.Sprintf("r%d", i), true
		}
	}
	return "", false
}

func (t *goTranslator) tr(x ast.Expr, inOld bool) (string, error) {
	switch v := x.(type) {
	case *ast.ParenExpr:
		s, err := t.tr(v.X, inOld)
		return "(" + s + ")", err
	case *ast.BasicLit:
		return v.Value, nil
	case *ast.Ident:
		for i := len(t.subst) - 1; i >= 0; i-- {
			if a, ok := t.subst[i][v.Name]; ok {
				saved := t.subst
				t.subst = t.subst[:i]
				s, err := t.tr(a, inOld)
				t.subst = saved
				return "(" + s + ")", err
			}
		}
		if v.Name == "true" || v.Name == "false" || v.Name == "nil" {
			return v.Name, nil
		}
		for _, b := range t.bound {
			if b == v.Name {
				if inOld {
					return v.Name, nil
				}
				return v.Name, nil
			}
		}
		if r, ok := t.resultName(v.Name); ok {
			if inOld {
				return "", fmt.Errorf("result inside old()")
			}
			return r, nil
		}
		for _, p := range t.fr.Fn.Params {
			if p.Name() == v.Name {
				if inOld {
					return t.hoist(v.Name), nil
				}
				return v.Name, nil
			}
		}
		if t.fr.Fn.Pkg != nil {
			if obj := t.fr.Fn.Pkg.Pkg.Scope().Lookup(v.Name); obj != nil {
				return v.Name, nil
			}
		}
		if types.Universe.Lookup(v.Name) != nil {
			return v.Name, nil
		}
		return "", fmt.Errorf("identifier %s has no counterpart in a test", v.Name)
	case *ast.SelectorExpr:
		if inOld {
			if chain, ok := t.paramChain(v); ok {
				return t.hoist(chain), nil
			}
		}
		s, err := t.tr(v.X, inOld)
		return s + "." + v.Sel.Name, err
	case *ast.StarExpr:
		s, err := t.tr(v.X, inOld)
		return "*" + s, err
	case *ast.UnaryExpr:
		s, err := t.tr(v.X, inOld)
		return v.Op.String() + s, err
	case *ast.BinaryExpr:
		a, err := t.tr(v.X, inOld)
		if err != nil {
			return "", err
		}
		b, err := t.tr(v.Y, inOld)
		return "(" + a + " " + v.Op.String() + " " + b + ")", err
	case *ast.IndexExpr:
		a, err := t.tr(v.X, inOld)
		if err != nil {
			return "", err
		}
		b, err := t.tr(v.Index, inOld)
		return a + "[" + b + "]", err
	case *ast.SliceExpr:
		a, err := t.tr(v.X, inOld)
		if err != nil {
			return "", err
		}
		lo, hi := "", ""
		if v.Low != nil {
			if lo, err = t.tr(v.Low, inOld); err != nil {
				return "", err
			}
		}
		if v.High != nil {
			if hi, err = t.tr(v.High, inOld); err != nil {
				return "", err
			}
		}
		if v.Slice3 {
			return "", fmt.Errorf("3-index slice")
		}
		return a + "[" + lo + ":" + hi + "]", nil
	case *ast.CallExpr:
		id, isId := v.Fun.(*ast.Ident)
		if !isId {
			// conversion like (*T)(x) or pkg.T(x)
			f, err := t.tr(v.Fun, inOld)
			if err != nil || len(v.Args) != 1 {
				return "", fmt.Errorf("unsupported call")
			}
			a, err := t.tr(v.Args[0], inOld)
			return f + "(" + a + ")", err
		}
		var as []string
		trArgs := func() error {
			for _, a := range v.Args {
				s, err := t.tr(a, inOld)
				if err != nil {
					return err
				}
				as = append(as, s)
			}
			return nil
		}
		switch id.Name {
		case "old":
			if len(v.Args) != 1 {
				return "", fmt.Errorf("old/1")
			}
			// the parameter-rooted paths inside old() are read before the call (hoisted), the rest of
			// the expression - indices with quantified variables, arithmetic - is evaluated in place
			return t.tr(v.Args[0], true)
		case "imp":
			if err := trArgs(); err != nil || len(as) != 2 {
				return "", fmt.Errorf("imp: %v", err)
			}
			return "verifImp(" + as[0] + ", func() (ok bool) { defer func() { if recover() != nil { ok = true } }(); return " + as[1] + " }())", nil
		case "len", "cap", "string", "int", "int8", "int16", "int32", "int64", "uint", "uint8", "uint16", "uint32", "uint64", "byte", "bool":
			if err := trArgs(); err != nil {
				return "", err
			}
			return id.Name + "(" + strings.Join(as, ", ") + ")", nil
		case "be16", "be32", "be64":
			if err := trArgs(); err != nil || len(as) != 2 {
				return "", fmt.Errorf("%s/2", id.Name)
			}
			n := map[string]int{"be16": 2, "be32": 4, "be64": 8}[id.Name]
			return fmt.Sprintf("uint%d(verifBE(%s, int(%s), %d))", n*8, as[0], as[1], n), nil
		case "same":
			if err := trArgs(); err != nil || len(as) != 2 {
				return "", fmt.Errorf("same/2")
			}
			return "verifSame(" + as[0] + ", " + as[1] + ")", nil
		case "ite":
			if err := trArgs(); err != nil || len(as) != 3 {
				return "", fmt.Errorf("ite/3")
			}
			return fmt.Sprintf("func() int { if %s { return int(%s) }; return int(%s) }()", as[0], as[1], as[2]), nil
		case "max", "min":
			if err := trArgs(); err != nil || len(as) != 2 {
				return "", fmt.Errorf("%s/2", id.Name)
			}
			op := ">"
			if id.Name == "min" {
				op = "<"
			}
			return fmt.Sprintf("func() int { a, b := int(%s), int(%s); if a %s b { return a }; return b }()", as[0], as[1], op), nil
		case "soft_panic":
			return "softPanic", nil
		case "forall", "exists":
			// integer-quantified facts about the inputs/results: checked for k in [-2, 70000] (the replay
			// never rebuilds a string or slice longer than 65536)
			kv, isId := v.Args[0].(*ast.Ident)
			if !isId || (len(v.Args) != 2 && len(v.Args) != 3) {
				return "", fmt.Errorf("%s over a typed variable", id.Name)
			}
			t.subst = append(t.subst, map[string]ast.Expr{})
			t.bound = append(t.bound, kv.Name)
			defer func() { t.bound = t.bound[:len(t.bound)-1]; t.subst = t.subst[:len(t.subst)-1] }()
			var rng, body string
			var err error
			if len(v.Args) == 3 {
				if rng, err = t.tr(v.Args[1], inOld); err != nil {
					return "", err
				}
				if body, err = t.tr(v.Args[2], inOld); err != nil {
					return "", err
				}
			} else {
				rng = "true"
				if body, err = t.tr(v.Args[1], inOld); err != nil {
					return "", err
				}
			}
			guard := func(e string) string {
				return "func() (ok bool) { defer func() { if recover() != nil { ok = false } }(); return " + e + " }()"
			}
			if id.Name == "forall" {
				return fmt.Sprintf("func() bool { for %s := -2; %s <= 70000; %s++ { if %s && !%s { return false } }; return true }()", kv.Name, kv.Name, kv.Name, guard(rng), guard(body)), nil
			}
			return fmt.Sprintf("func() bool { for %s := -2; %s <= 70000; %s++ { if %s && %s { return true } }; return false }()", kv.Name, kv.Name, kv.Name, guard(rng), guard(body)), nil
		case "all", "any":
			kv, isId := v.Args[0].(*ast.Ident)
			if !isId || len(v.Args) != 4 {
				return "", fmt.Errorf("%s(i, lo, hi, body)", id.Name)
			}
			t.bound = append(t.bound, kv.Name)
			defer func() { t.bound = t.bound[:len(t.bound)-1] }()
			lo, err := t.tr(v.Args[1], inOld)
			if err != nil {
				return "", err
			}
			hi, err := t.tr(v.Args[2], inOld)
			if err != nil {
				return "", err
			}
			body, err := t.tr(v.Args[3], inOld)
			if err != nil {
				return "", err
			}
			if id.Name == "all" {
				return fmt.Sprintf("func() bool { for %s := int(%s); %s < int(%s); %s++ { if !(%s) { return false } }; return true }()", kv.Name, lo, kv.Name, hi, kv.Name, body), nil
			}
			return fmt.Sprintf("func() bool { for %s := int(%s); %s < int(%s); %s++ { if %s { return true } }; return false }()", kv.Name, lo, kv.Name, hi, kv.Name, body), nil
		case "typeis":
			if len(v.Args) != 2 {
				return "", fmt.Errorf("typeis/2")
			}
			a, err := t.tr(v.Args[0], inOld)
			if err != nil {
				return "", err
			}
			return fmt.Sprintf("func() bool { _, ok := interface{}(%s).(%s); return ok }()", a, types.ExprString(v.Args[1])), nil
		case "unbox":
			if len(v.Args) != 2 {
				return "", fmt.Errorf("unbox/2")
			}
			a, err := t.tr(v.Args[0], inOld)
			if err != nil {
				return "", err
			}
			return fmt.Sprintf("interface{}(%s).(%s)", a, types.ExprString(v.Args[1])), nil
		case "nonnilptr":
			if err := trArgs(); err != nil || len(as) != 1 {
				return "", fmt.Errorf("nonnilptr/1")
			}
			return fmt.Sprintf("func() bool { v := reflect.ValueOf(%s); return !v.IsValid() || v.Kind() != reflect.Ptr || !v.IsNil() }()", as[0]), nil
		}
		if pr := t.eng.contracts.Preds[id.Name]; pr != nil && len(pr.Params) == len(v.Args) {
			body, err := parser.ParseExpr(rewriteImp(pr.Body))
			if err != nil {
				return "", err
			}
			m := map[string]ast.Expr{}
			for i, p := range pr.Params {
				m[p] = v.Args[i]
			}
			t.subst = append(t.subst, m)
			s, err := t.tr(body, inOld)
			t.subst = t.subst[:len(t.subst)-1]
			return "(" + s + ")", err
		}
		if t.fr.Fn.Pkg != nil {
			if obj := t.fr.Fn.Pkg.Pkg.Scope().Lookup(id.Name); obj != nil {
				if _, isType := obj.(*types.TypeName); isType && len(v.Args) == 1 {
					a, err := t.tr(v.Args[0], inOld)
					return id.Name + "(" + a + ")", err
				}
			}
		}
		return "", fmt.Errorf("%s(...) has no executable counterpart", id.Name)
	}
	return "", fmt.Errorf("unsupported expression %T", x)
}

var _ = ssa.Function{}

// cmdReplay re-runs the Go test stored in a replay file against the current tree.
func cmdReplay(args []string) int {
	if len(args) < 1 {
		fmt.Println("usage: govc replay <replay-file.json>")
		return 2
	}
	raw, err := os.ReadFile(args[0])
	if err != nil {
		fmt.Println("replay:", err)
		return 2
	}
	var d struct {
		Property   string        `json:"property"`
		Obligation string        `json:"obligation"`
		Status     string        `json:"solver_status"`
		Replay     replayOutcome `json:"replay"`
	}
	if err := json.Unmarshal(raw, &d); err != nil {
		fmt.Println("replay:", err)
		return 2
	}
	fmt.Printf("obligation: %s (property %s, solver: %s)\n", d.Obligation, d.Property, d.Status)
	if d.Replay.TestSource == "" {
		fmt.Printf("no executable replay was recorded: %s\nThe file carries the failed obligation, the solver's answer and, where there was one, its model.\n", d.Replay.Reason)
		return 0
	}
	tmp, err := os.MkdirTemp("/var/tmp", "govc-replay-")
	if err != nil {
		fmt.Println("replay:", err)
		return 2
	}
	defer os.RemoveAll(tmp)
	rel := strings.TrimPrefix(strings.TrimPrefix(d.Replay.Package, "github.com/gocql/gocql"), "/")
	output, reason := runReplayTest(tmp, filepath.Join(repoDir(), rel), d.Replay.TestSource)
	fmt.Println(output)
	if reason != "" {
		fmt.Println("replay:", reason)
		return 2
	}
	if strings.Contains(output, "REPLAY pre=true") && (strings.Contains(output, "REPLAY panicked=true runtime=true") || strings.Contains(output, "REPLAY post=false")) {
		fmt.Println("REPRODUCED: the recorded input still makes the real code fail")
		return 1
	}
	fmt.Println("not reproduced on the current tree")
	return 0
}
