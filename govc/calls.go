package main

import (
	"fmt"
	"go/token"
	"go/types"
	"os"
	"regexp"
	"strconv"
	"strings"

	"golang.org/x/tools/go/ssa"
)

// ---------- maps ----------

func (e *Exec) mapKeys(mt *types.Map) (dk, dsrt, vk, vsrt string) {
	ks := e.mapKeySort(mt.Key())
	vs := e.sc.sortOf(mt.Elem())
	tag := sortTag(ks) + "|" + sortTag(vs)
	return "MD|" + tag, fmt.Sprintf("(Array Int (Array %s Bool))", ks), "MV|" + tag, fmt.Sprintf("(Array Int (Array %s %s))", ks, vs)
}

// string keys are canonicalised through str.id (content-injective)
func (e *Exec) mapKeySort(k types.Type) string {
	if isString(k) {
		return "Int"
	}
	return e.sc.sortOf(k)
}

func (e *Exec) mapKeyTerm(k types.Type, term string) string {
	if !isString(k) {
		if !strings.Contains(term, "q.") {
			e.sc.noteIdx(term, e.sc.sortOf(k)) // quantified map invariants are instantiated at the keys used
		}
		return term
	}
	if !e.sc.funs["str.id"] {
		e.sc.funs["str.id"] = true
		// str.id: canonical identity of a string's content (equal content <=> equal id);
		// uninterpreted: two keys are the same map key iff their ids are equal
		e.sc.emit("(declare-fun str.id (Str) Int)")
	}
	// ground instances of "equal ids <=> equal strings" for every pair of key terms
	if !strings.Contains(term, "q.") {
		seen := false
		for _, t := range e.sc.mapKeys {
			if t == term {
				seen = true
				break
			}
		}
		if !seen {
			for _, t := range e.sc.mapKeys {
				c1, ok1 := e.sc.strConsts[t]
				c2, ok2 := e.sc.strConsts[term]
				var same string
				switch {
				case ok1 && ok2 && c1 == c2:
					same = "true"
				case ok1 && ok2:
					same = "false"
				case ok1:
					same = e.strEqConst(term, c1)
				case ok2:
					same = e.strEqConst(t, c2)
				default:
					same = e.strEqTerm(t, term)
				}
				e.sc.emit(fmt.Sprintf("(assert (= (= (str.id %s) (str.id %s)) %s))", t, term, same))
			}
			e.sc.mapKeys = append(e.sc.mapKeys, term)
		}
	}
	if !strings.Contains(term, "q.") {
		e.sc.noteIdx(fmt.Sprintf("(str.id %s)", term), "Int")
	}
	return fmt.Sprintf("(str.id %s)", term)
}

func (e *Exec) mapInit(st *State, mt *types.Map, ref string) {
	dk, dsrt, _, _ := e.mapKeys(mt)
	ks := e.mapKeySort(mt.Key())
	m := e.memGet(st, dk, dsrt)
	e.memSet(st, dk, dsrt, fmt.Sprintf("(store %s %s ((as const (Array %s Bool)) false))", m, ref, ks))
	n := e.memGet(st, "MN", fmt.Sprintf("(Array Int %s)", e.sc.idx()))
	e.memSet(st, "MN", fmt.Sprintf("(Array Int %s)", e.sc.idx()), fmt.Sprintf("(store %s %s %s)", n, ref, e.sc.idxLit(0)))
}

func (e *Exec) mapRead(st *State, mt *types.Map, m, key string) (dom, val string) {
	dk, dsrt, vk, vsrt := e.mapKeys(mt)
	k := e.mapKeyTerm(mt.Key(), key)
	dom = fmt.Sprintf("(and (not (= %s 0)) (select (select %s %s) %s))", m, e.memGet(st, dk, dsrt), m, k)
	val = fmt.Sprintf("(select (select %s %s) %s)", e.memGet(st, vk, vsrt), m, k)
	return
}

func (e *Exec) mapLen(st *State, m string) string {
	n := e.memGet(st, "MN", fmt.Sprintf("(Array Int %s)", e.sc.idx()))
	return fmt.Sprintf("(select %s %s)", n, m)
}

// mapLenFacts: a map has at least 0 entries, the nil map none.
func (e *Exec) mapLenFacts(st *State, m string) {
	n := e.mapLen(st, m)
	e.assume(st, and(e.le(e.sc.idxLit(0), n), imp(fmt.Sprintf("(= %s 0)", m), eq(n, e.sc.idxLit(0)))))
}

func (e *Exec) lookup(st *State, x *ssa.Lookup) {
	xv := e.val(st, x.X)
	iv := e.val(st, x.Index)
	mt, isMap := x.X.Type().Underlying().(*types.Map)
	if !isMap {
		// string index
		i := e.toIdx(st, iv)
		e.check(st, "index", e.srcText(x.Pos()), and(e.le(e.sc.idxLit(0), i), e.lt(i, "(str-len "+xv.S+")")), x.Pos())
		e.setTerm(st, x, fmt.Sprintf("(select (str-arr %s) %s)", xv.S, e.add("(str-off "+xv.S+")", i)))
		return
	}
	dom, val := e.mapRead(st, mt, xv.S, iv.S)
	domN := e.sc.define(x.Name()+".in", "Bool", dom)
	v := Val{T: mt.Elem(), S: e.sc.define(x.Name(), e.sc.sortOf(mt.Elem()), ite(domN, val, e.sc.zero(mt.Elem())))}
	e.assumeWF(st, v)
	if x.CommaOk {
		e.set(st, x, Val{T: x.Type(), Tup: []Val{v, {T: tBool, S: domN}}})
	} else {
		e.set(st, x, v)
	}
}

func (e *Exec) mapUpdate(st *State, x *ssa.MapUpdate) {
	m := e.val(st, x.Map)
	k := e.val(st, x.Key)
	v := e.val(st, x.Value)
	mt := x.Map.Type().Underlying().(*types.Map)
	e.check(st, "nilmap", e.srcText(x.Pos()), fmt.Sprintf("(not (= %s 0))", m.S), x.Pos())
	if v.A != nil || v.Fn != nil {
		v = e.freshVal(st, "absval", mt.Elem())
	}
	e.mapStore(st, mt, m.S, k.S, v.S, true)
}

func (e *Exec) mapStore(st *State, mt *types.Map, m, key, val string, present bool) {
	dk, dsrt, vk, vsrt := e.mapKeys(mt)
	k := e.mapKeyTerm(mt.Key(), key)
	d := e.memGet(st, dk, dsrt)
	was := e.sc.define("was", "Bool", fmt.Sprintf("(select (select %s %s) %s)", d, m, k))
	pb := "true"
	if !present {
		pb = "false"
	}
	e.memSet(st, dk, dsrt, fmt.Sprintf("(store %s %s (store (select %s %s) %s %s))", d, m, d, m, k, pb))
	if present {
		vm := e.memGet(st, vk, vsrt)
		e.memSet(st, vk, vsrt, fmt.Sprintf("(store %s %s (store (select %s %s) %s %s))", vm, m, vm, m, k, val))
	}
	nsrt := fmt.Sprintf("(Array Int %s)", e.sc.idx())
	n := e.memGet(st, "MN", nsrt)
	cur := fmt.Sprintf("(select %s %s)", n, m)
	var nn string
	if present {
		nn = ite(was, cur, e.add(cur, e.sc.idxLit(1)))
	} else {
		nn = ite(was, e.sub(cur, e.sc.idxLit(1)), cur)
	}
	e.memSet(st, "MN", nsrt, fmt.Sprintf("(store %s %s %s)", n, m, nn))
}

// ---------- range / next ----------

func (e *Exec) rangeInit(st *State, x *ssa.Range) {
	key := "IT|" + e.curFn.Name() + "." + x.Name()
	if isString(x.X.Type()) {
		e.memGet(st, key, e.sc.idx())
		e.memSet(st, key, e.sc.idx(), e.sc.idxLit(0))
	}
	if mt, ok := x.X.Type().Underlying().(*types.Map); ok {
		// map iteration: number of entries produced so far and the set of keys produced; the value of
		// the iterator is the map's domain when the iteration starts
		kn, kv := "IT|N:"+e.curFn.Name()+"."+x.Name(), "IT|V:"+e.curFn.Name()+"."+x.Name()
		ks := e.mapKeySort(mt.Key())
		vsrt := fmt.Sprintf("(Array %s Bool)", ks)
		e.memGet(st, kn, e.sc.idx())
		e.memSet(st, kn, e.sc.idx(), e.sc.idxLit(0))
		e.memGet(st, kv, vsrt)
		e.memSet(st, kv, vsrt, fmt.Sprintf("((as const %s) false)", vsrt))
		dk, dsrt, _, _ := e.mapKeys(mt)
		m := e.val(st, x.X)
		e.set(st, x, Val{T: x.Type(), S: e.sc.define(x.Name()+".dom0", fmt.Sprintf("(Array %s Bool)", ks), fmt.Sprintf("(select %s %s)", e.memGet(st, dk, dsrt), m.S))})
		return
	}
	e.set(st, x, Val{T: x.Type(), S: "0"})
}

func (e *Exec) rangeNext(st *State, x *ssa.Next) {
	rng := x.Iter.(*ssa.Range)
	tup := x.Type().(*types.Tuple)
	if x.IsString {
		s := e.val(st, rng.X)
		key := "IT|" + e.curFn.Name() + "." + rng.Name()
		pos := e.memGet(st, key, e.sc.idx())
		ok := e.sc.define(x.Name()+".ok", "Bool", e.lt(pos, "(str-len "+s.S+")"))
		b := e.sc.define(x.Name()+".b", e.sc.byteSort(), fmt.Sprintf("(select (str-arr %s) %s)", s.S, e.add("(str-off "+s.S+")", pos)))
		// rune decoding per the Go spec: ASCII byte => rune == byte, width 1;
		// otherwise rune >= 0x80 (or U+FFFD), width 1..4 within the string
		r := e.sc.fresh(x.Name()+".rune", e.sc.sortOf(types.Typ[types.Int32]))
		w := e.sc.fresh(x.Name()+".w", e.sc.idx())
		var ascii, runeIsB, runeBig string
		if e.mode == ModeBV {
			ascii = fmt.Sprintf("(bvult %s #x80)", b)
			runeIsB = eq(r, fmt.Sprintf("((_ zero_extend 24) %s)", b))
			runeBig = fmt.Sprintf("(and (bvsge %s #x00000080) (bvsle %s #x0010ffff))", r, r)
		} else {
			ascii = fmt.Sprintf("(< %s 128)", b)
			runeIsB = eq(r, b)
			runeBig = fmt.Sprintf("(and (>= %s 128) (<= %s 1114111))", r, r)
		}
		e.assume(st, imp(ok, and(
			imp(ascii, and(runeIsB, eq(w, e.sc.idxLit(1)))),
			imp(not(ascii), and(runeBig, e.le(e.sc.idxLit(1), w), e.le(w, e.sc.idxLit(4)), e.le(e.add(pos, w), "(str-len "+s.S+")"))))))
		e.memSet(st, key, e.sc.idx(), ite(ok, e.add(pos, w), pos))
		e.set(st, x, Val{T: x.Type(), Tup: []Val{{T: tBool, S: ok}, {T: tInt, S: pos}, {T: types.Typ[types.Int32], S: r}}})
		return
	}
	// map iteration: an arbitrary key of the current domain (no order, no visited-set)
	mt := rng.X.Type().Underlying().(*types.Map)
	m := e.val(st, rng.X)
	ok := e.sc.fresh(x.Name()+".ok", "Bool")
	kv := e.freshVal(st, x.Name()+".k", mt.Key())
	dom, val := e.mapRead(st, mt, m.S, kv.S)
	e.assume(st, imp(ok, dom))
	// Go spec, "For statements with range clause": every entry is produced at most once; if the map
	// is not changed during the iteration, every entry exactly once - so an iteration over an
	// unchanged map continues exactly while fewer than len(m) entries have been produced.
	if it := e.val(st, rng); strings.Contains(it.S, ".dom0") {
		kn, kvs := "IT|N:"+e.curFn.Name()+"."+rng.Name(), "IT|V:"+e.curFn.Name()+"."+rng.Name()
		ks := e.mapKeySort(mt.Key())
		vsrt := fmt.Sprintf("(Array %s Bool)", ks)
		cnt := e.memGet(st, kn, e.sc.idx())
		vis := e.memGet(st, kvs, vsrt)
		dk, dsrt, _, _ := e.mapKeys(mt)
		kt := e.mapKeyTerm(mt.Key(), kv.S)
		e.mapLenFacts(st, m.S)
		unchanged := eq(fmt.Sprintf("(select %s %s)", e.memGet(st, dk, dsrt), m.S), it.S)
		e.assume(st, imp(ok, not(fmt.Sprintf("(select %s %s)", vis, kt))))
		e.assume(st, imp(unchanged, eq(ok, e.lt(cnt, e.mapLen(st, m.S)))))
		e.assume(st, e.le(e.sc.idxLit(0), cnt))
		e.memSet(st, kn, e.sc.idx(), ite(ok, e.add(cnt, e.sc.idxLit(1)), cnt))
		e.memSet(st, kvs, vsrt, ite(ok, fmt.Sprintf("(store %s %s true)", vis, kt), vis))
		e.libUsed["go-spec: a range over a map that is not changed produces each entry exactly once"] = true
	}
	vv := Val{T: mt.Elem(), S: e.sc.define(x.Name()+".v", e.sc.sortOf(mt.Elem()), val)}
	e.assumeWF(st, vv)
	_ = tup
	e.set(st, x, Val{T: x.Type(), Tup: []Val{{T: tBool, S: ok}, kv, vv}})
}

// ---------- channels / goroutines (sequential abstraction; thread-modular hooks in tm.go) ----------

func (e *Exec) recvOp(st *State, x *ssa.UnOp) {
	if e.eng.tmRecv != nil && e.eng.tmRecv(e, st, x) {
		return
	}
	if ch := e.val(st, x.X); ch.S != "" {
		// receives are counted wherever they happen (deferred closures included)
		cnt := e.recvCount(st)
		st.mem["ghost|recv_count"] = e.sc.define("g.recv_count", e.memSort["ghost|recv_count"],
			fmt.Sprintf("(store %s %s %s)", cnt, ch.S, e.add(fmt.Sprintf("(select %s %s)", cnt, ch.S), e.sc.idxLit(1))))
	}
	el := x.X.Type().Underlying().(*types.Chan).Elem()
	v := e.freshVal(st, x.Name(), el)
	e.chanClauses(st, "assume_recv", e.val(st, x.X), v, "true", x.Pos())
	if x.CommaOk {
		ok := e.sc.fresh(x.Name()+".ok", "Bool")
		e.set(st, x, Val{T: x.Type(), Tup: []Val{v, {T: tBool, S: ok}}})
		return
	}
	e.set(st, x, v)
}

func (e *Exec) sendStmt(st *State, x *ssa.Send) {
	e.chanClauses(st, "before_send", e.val(st, x.Chan), e.val(st, x.X), "true", x.Pos())
	if e.eng.tmSend != nil {
		e.eng.tmSend(e, st, x)
	}
}

// chanClauses: `before_send expr` are obligations at every send of the function under contract
// (plain or a select case, then under the condition that the case is chosen), `assume_recv expr`
// assumptions at every receive (channel protocol facts proved at the senders), both over `ch`
// (the channel) and `val` (the message) besides parameters and locals. A clause whose expression
// does not type-check for this channel's element type does not apply to it.
func (e *Exec) chanClauses(st *State, kind string, ch, val Val, cond string, pos token.Pos) {
	e.chanClausesAlt(st, kind, ch, val, cond, pos, 0)
}

// alternatives: number of other cases of the select this communication is part of (0: a plain,
// blocking send or receive) - `before_send ... && alternatives >= 1` demands a way out.
func (e *Exec) chanClausesAlt(st *State, kind string, ch, val Val, cond string, pos token.Pos, alternatives int) {
	if e.fc == nil || !e.ownCode() || len(e.fc.Lists[kind]) == 0 || ch.S == "" {
		return
	}
	for i, cl := range e.fc.Lists[kind] {
		c := e.specEnvLocals(st)
		c.vars["ch"] = ch
		c.vars["alternatives"] = Val{T: tInt, S: e.sc.idxLit(int64(alternatives))}
		if val.S != "" || val.A != nil || val.Tup != nil {
			c.vars["val"] = val
		}
		c.where = fmt.Sprintf("%s:%d", cl.File, cl.Line)
		t, err := c.evalBool(strings.TrimSpace(cl.Expr))
		if err != nil {
			continue
		}
		if e.chanHits == nil {
			e.chanHits = map[string]int{}
		}
		e.chanHits[fmt.Sprintf("%s#%d", kind, i)]++
		if kind == "assume_recv" {
			e.assume(st, imp(cond, t))
			e.libUsed["assume-recv:"+strings.TrimSpace(cl.Expr)] = true
			continue
		}
		saved := e.propsDef
		if len(cl.Props) > 0 {
			e.propsDef = cl.Props
		}
		pcSaved := st.pc
		if cond != "true" {
			st.pc = e.sc.define("pc", "Bool", and(st.pc, cond))
		}
		e.check(st, "before-send", fmt.Sprintf("%d", i), t, pos)
		st.pc = pcSaved
		e.propsDef = saved
	}
}

func (e *Exec) goStmt(st *State, x *ssa.Go) {
	e.countCall(st, "go")
	if e.eng.tmGo != nil {
		e.eng.tmGo(e, st, x)
	}
}

func (e *Exec) selectStmt(st *State, x *ssa.Select) {
	// nondeterministic choice among the cases (and default when non-blocking)
	tup := x.Type().(*types.Tuple)
	idx := e.sc.fresh(x.Name()+".idx", e.sc.idx())
	lo := int64(0)
	if !x.Blocking {
		lo = -1
	}
	e.assume(st, and(e.le(e.sc.idxLit(lo), idx), e.lt(idx, e.sc.idxLit(int64(len(x.States))))))
	vals := []Val{{T: tInt, S: idx}, {T: tBool, S: e.sc.fresh(x.Name()+".recvok", "Bool")}}
	for i := 2; i < tup.Len(); i++ {
		vals = append(vals, e.freshVal(st, fmt.Sprintf("%s.r%d", x.Name(), i), tup.At(i).Type()))
	}
	e.set(st, x, Val{T: x.Type(), Tup: vals})
	// ghost accounting of the communication that the chosen case performs
	if e.curFn == e.fn {
		for i, sst := range x.States {
			ch := e.val(st, sst.Chan)
			if ch.S == "" {
				continue
			}
			chosen := eq(idx, e.sc.idxLit(int64(i)))
			if sst.Dir == types.SendOnly {
				sv := e.val(st, sst.Send)
				alts := len(x.States) - 1
				if !x.Blocking {
					alts++
				}
				e.chanClausesAlt(st, "before_send", ch, sv, chosen, x.Pos(), alts)
				cnt := e.sendCount(st)
				st.mem["ghost|send_count"] = e.sc.define("g.send_count", e.memSort["ghost|send_count"],
					ite(chosen, fmt.Sprintf("(store %s %s %s)", cnt, ch.S, e.add(fmt.Sprintf("(select %s %s)", cnt, ch.S), e.sc.idxLit(1))), cnt))
				if sv.S != "" {
					el := sst.Chan.Type().Underlying().(*types.Chan).Elem()
					svals := e.sendVals(st, el)
					key := "ghost|send_val_" + sortTag(e.sc.sortOf(el))
					st.mem[key] = e.sc.define("g.send_val", e.memSort[key], ite(chosen, fmt.Sprintf("(store %s %s %s)", svals, ch.S, sv.S), svals))
				}
			} else {
				// receives chosen by a select are counted in their own ghost (selrecvd(ch))
				sc2 := e.selRecvCount(st)
				st.mem["ghost|selrecv_count"] = e.sc.define("g.selrecv_count", e.memSort["ghost|selrecv_count"],
					ite(chosen, fmt.Sprintf("(store %s %s %s)", sc2, ch.S, e.add(fmt.Sprintf("(select %s %s)", sc2, ch.S), e.sc.idxLit(1))), sc2))
				// the value received by this case is the (2+k)-th component of the select's result
				k := 0
				for j := 0; j < i; j++ {
					if x.States[j].Dir == types.RecvOnly {
						k++
					}
				}
				if 2+k < len(vals) {
					e.chanClauses(st, "assume_recv", ch, vals[2+k], chosen, x.Pos())
				}
			}
			// receives chosen by a select are not counted (recvd() counts plain receives only)
		}
	}
	if e.eng.tmSelect != nil {
		e.eng.tmSelect(e, st, x, idx)
	}
}

// ---------- defers ----------

func (e *Exec) runDefers(fn *ssa.Function, fc *FuncContract, st *State) (bool, []Exit) {
	var exits []Exit
	ds := st.defers
	st.defers = nil
	for i := len(ds) - 1; i >= 0; i-- {
		d := ds[i]
		cont, ex := e.doCall(fn, fc, st, d.call, d.fn, d.args, nil, nil)
		exits = append(exits, ex...)
		if !cont {
			return false, exits
		}
	}
	return true, exits
}

// ---------- calls ----------

func (e *Exec) call(fn *ssa.Function, fc *FuncContract, st *State, x *ssa.Call) (bool, []Exit) {
	if auditDead && fn == e.fn && st.pc != "false" {
		// audit mode (GOVC_DEAD=1): every call site of the function under verification gets a reachability cover
		e.siteCovers = append(e.siteCovers, &Obligation{Name: fmt.Sprintf("%s#cover#dead:call@%s", e.fn.String(), e.eng.posString(x.Pos())), Kind: "cover", Func: e.fn.String(),
			Prefix: e.sc.mark(), Goal: "false", PC: st.pc, Script: e.sc, Expect: "sat", Props: e.propsDef, Site: true, Pos: e.eng.posString(x.Pos())})
	}
	var args []Val
	for _, a := range x.Call.Args {
		args = append(args, e.val(st, a))
	}
	var fv Val
	if !x.Call.IsInvoke() {
		if _, isB := x.Call.Value.(*ssa.Builtin); !isB {
			fv = e.val(st, x.Call.Value)
		}
	} else {
		fv = e.val(st, x.Call.Value)
	}
	cont, ex := e.doCall(fn, fc, st, &x.Call, fv, args, x, x)
	if cont {
		if callee := x.Call.StaticCallee(); callee != nil {
			e.recordRet(st, callee.Name(), x)
			if qn := staticQualName(callee); qn != "" {
				e.recordRet(st, qn, x)
			}
		} else if x.Call.IsInvoke() {
			e.recordRet(st, x.Call.Method.Name(), x)
			e.recordRet(st, qualName(&x.Call), x)
		} else if prm, ok := x.Call.Value.(*ssa.Parameter); ok {
			e.recordRet(st, prm.Name(), x)
		}
		e.assumeAfter(st, &x.Call)
	}
	return cont, ex
}


// assumeAfter: `assume_after <callee>: expr` - an assumption of the function under contract about
// what that call returned / left behind (listed with the assumptions), over the locals, the
// parameters and the count_calls ghosts (<callee>_retK), evaluated once those are recorded.
func (e *Exec) assumeAfter(st *State, cc *ssa.CallCommon) {
	if e.fc == nil || !e.ownCode() || len(e.fc.Lists["assume_after"]) == 0 {
		return
	}
	var names []string
	if cc.IsInvoke() {
		names = append(names, cc.Method.Name(), qualName(cc))
	} else if cal := cc.StaticCallee(); cal != nil {
		names = append(names, cal.Name(), staticQualName(cal))
	}
	for _, cl := range e.fc.Lists["assume_after"] {
		j := strings.Index(cl.Expr, ":")
		if j < 0 {
			continue
		}
		hit := false
		for _, n := range names {
			if n != "" && n == strings.TrimSpace(cl.Expr[:j]) {
				hit = true
			}
		}
		if !hit {
			continue
		}
		c := e.specEnvLocals(st)
		t, err := c.evalBool(strings.TrimSpace(cl.Expr[j+1:]))
		if err != nil {
			// the clause mentions a variable not in scope at this call: it applies to the other calls
			// of that callee (a clause that applies nowhere is an error, checked after the run)
			continue
		}
		if e.chanHits == nil {
			e.chanHits = map[string]int{}
		}
		e.chanHits["assume_after#"+strings.TrimSpace(cl.Expr)]++
		e.assume(st, t)
		e.libUsed["assume-after:"+strings.TrimSpace(cl.Expr)] = true
	}
}

func (e *Exec) setResult(st *State, dst ssa.Value, v Val) {
	if dst == nil {
		return
	}
	if v.T == nil {
		v.T = dst.Type()
	}
	st.vals[dst] = v
}

// doCall wraps the call with the caller's `stable_across <callee>: e1, e2` clauses: a frame
// assumption of the function under contract about that callee ("this call does not modify these
// objects of mine"), listed with the assumptions. Maps and slices keep their identity and contents,
// other expressions their value.
func (e *Exec) doCall(fn *ssa.Function, fc *FuncContract, st *State, cc *ssa.CallCommon, fv Val, args []Val, dst ssa.Value, instr ssa.Instruction) (bool, []Exit) {
	type snap struct {
		expr string
		v    sv
		rows map[string]string // memory key -> row term before the call
		ref  string
	}
	var snaps []snap
	if e.fc != nil && e.curFn == e.fn && len(e.fc.Lists["stable_across"]) > 0 {
		var names []string
		if cc.IsInvoke() {
			names = append(names, cc.Method.Name(), qualName(cc))
		} else if cal := cc.StaticCallee(); cal != nil {
			names = append(names, cal.Name(), staticQualName(cal))
		}
		for _, cl := range e.fc.Lists["stable_across"] {
			j := strings.Index(cl.Expr, ":")
			if j < 0 {
				continue
			}
			hit := false
			for _, n := range names {
				if n != "" && n == strings.TrimSpace(cl.Expr[:j]) {
					hit = true
				}
			}
			if !hit {
				continue
			}
			for _, ex := range splitTop(cl.Expr[j+1:], ',') {
				ex = strings.TrimSpace(ex)
				c := e.specEnvLocals(st)
				v, err := c.evalExpr(ex)
				if err != nil || v.c != nil {
					e.note("CONTRACT-ERROR stable_across %s: %v", ex, err)
					continue
				}
				sn := snap{expr: ex, v: v, rows: map[string]string{}}
				switch u := v.T.Underlying().(type) {
				case *types.Map:
					dk, ds, vk, vs := e.mapKeys(u)
					sn.ref = v.S
					sn.rows[dk+"\x00"+ds] = fmt.Sprintf("(select %s %s)", e.memGet(st, dk, ds), v.S)
					sn.rows[vk+"\x00"+vs] = fmt.Sprintf("(select %s %s)", e.memGet(st, vk, vs), v.S)
					ns := fmt.Sprintf("(Array Int %s)", e.sc.idx())
					sn.rows["MN\x00"+ns] = fmt.Sprintf("(select %s %s)", e.memGet(st, "MN", ns), v.S)
				case *types.Slice:
					k, srt := e.elemKey(u.Elem())
					sn.ref = "(s-base " + v.S + ")"
					sn.rows[k+"\x00"+srt] = fmt.Sprintf("(select %s %s)", e.memGet(st, k, srt), sn.ref)
				}
				for k, t := range sn.rows {
					sn.rows[k] = e.sc.define("stable", strings.TrimSuffix(strings.SplitN(strings.SplitN(k, "\x00", 2)[1], " ", 3)[2], ")"), t)
				}
				e.libUsed["stable-across:"+strings.TrimSpace(cl.Expr[:j])+": "+ex] = true
				snaps = append(snaps, sn)
			}
		}
	}
	cont, exits := e.doCallInner(fn, fc, st, cc, fv, args, dst, instr)
	if cont && e.fc != nil && e.curFn == e.fn {
		// `running expr`: a stepwise invariant of straight-line code - proved after every call of
		// the function's own code (from the previous instance and the callee's contract) and kept as
		// a fact; it turns one long chain of callee postconditions into short steps
		if _, isBuiltin := cc.Value.(*ssa.Builtin); !isBuiltin {
			for i, cl := range e.fc.Lists["running"] {
				c := e.specEnvLocals(st)
				c.where = fmt.Sprintf("%s:%d", cl.File, cl.Line)
				t, err := c.evalBool(e.sct.subst(cl.Expr))
				if err != nil {
					e.note("CONTRACT-ERROR running: %v", err)
					continue
				}
				saved := e.propsDef
				if len(cl.Props) > 0 {
					e.propsDef = cl.Props
				}
				e.check(st, "running", fmt.Sprintf("%d:%s", i, e.srcText(cc.Pos())), t, cc.Pos())
				e.propsDef = saved
			}
		}
	}
	if cont {
		for _, sn := range snaps {
			c := e.specEnvLocals(st)
			nv, err := c.evalExpr(sn.expr)
			if err == nil && nv.c == nil {
				e.assume(st, eq(nv.S, sn.v.S))
			}
			for k, row := range sn.rows {
				parts := strings.SplitN(k, "\x00", 2)
				m := e.memGet(st, parts[0], parts[1])
				e.memSet(st, parts[0], parts[1], fmt.Sprintf("(store %s %s %s)", m, sn.ref, row))
			}
		}
	}
	return cont, exits
}

func (e *Exec) doCallInner(fn *ssa.Function, fc *FuncContract, st *State, cc *ssa.CallCommon, fv Val, args []Val, dst ssa.Value, instr ssa.Instruction) (bool, []Exit) {
	pos := cc.Pos()
	if b, ok := cc.Value.(*ssa.Builtin); ok {
		return e.builtin(st, b, cc, args, dst)
	}
	var resT types.Type = types.NewTuple()
	if sig := cc.Signature(); sig != nil {
		switch sig.Results().Len() {
		case 0:
		case 1:
			resT = sig.Results().At(0).Type()
		default:
			resT = sig.Results()
		}
	}
	if cc.IsInvoke() {
		e.check(st, "nil", "invoke:"+e.srcText(cc.Value.Pos())+"."+cc.Method.Name(), fmt.Sprintf("(not (= (i-tag %s) 0))", fv.S), pos)
		e.countCall(st, cc.Method.Name())
		e.countCall(st, qualName(cc))
		e.beforeCall(st, cc.Method.Name(), pos, args)
		if qn := qualName(cc); qn != "" {
			e.beforeCall(st, qn, pos, args)
		}
		// interface method contract?
		if ic := e.eng.ifaceContract(cc); ic != nil {
			all := append([]Val{fv}, args...)
			return e.callByContract(st, ic, nil, all, resT, dst, cc)
		}
		if e.eng.tmInvoke != nil && e.eng.tmInvoke(e, st, cc, fv, args, dst) {
			return true, nil
		}
		e.havocForCall(st, nil, cc, args)
		e.libUsed["invoke:"+cc.Method.FullName()] = true
		rv := e.freshVal(st, "inv."+cc.Method.Name(), resT)
		if types.TypeString(cc.Value.Type(), nil) == "reflect.Type" && types.TypeString(resT, nil) == "reflect.Type" {
			// reflect.Type methods returning a Type (Elem, Key, ...) never return nil (they panic instead)
			e.assume(st, fmt.Sprintf("(> (i-tag %s) 0)", rv.S))
		}
		e.setResult(st, dst, rv)
		return true, nil
	}
	callee := cc.StaticCallee()
	if callee != nil {
		e.countCall(st, callee.Name())
		e.beforeCall(st, callee.Name(), pos, args)
		if qn := staticQualName(callee); qn != "" {
			e.countCall(st, qn)
			e.beforeCall(st, qn, pos, args)
		}
	}
	if callee == nil && fv.Fn != nil {
		callee = fv.Fn
		args = append(append([]Val(nil), args...))
	}
	if callee == nil {
		// dynamic function value (counted under the name of the parameter / variable holding it)
		if prm, ok := cc.Value.(*ssa.Parameter); ok {
			e.countCall(st, prm.Name())
			e.beforeCall(st, prm.Name(), pos, args)
		}
		e.havocForCall(st, nil, cc, args)
		e.libUsed["dynamic-call"] = true
		e.setResult(st, dst, e.freshVal(st, "dyn", resT))
		return true, nil
	}
	// receiver non-nil obligation for pointer-receiver methods (callee assumes it)
	if callee.Signature.Recv() != nil && len(args) > 0 {
		if _, isPtr := callee.Signature.Recv().Type().Underlying().(*types.Pointer); isPtr && args[0].A == nil && callee.Pkg != nil && e.eng.inRepo(callee) {
			nilOK := false
			if cc0 := e.eng.contractFor(callee); cc0 != nil {
				_, nilOK = cc0.Flags["nil_receiver_ok"]
			}
			if !nilOK {
				e.checkNonNil(st, args[0].S, "recv:"+e.srcText(pos), pos)
			}
		}
	}
	// library model?
	if done, cont, ex := e.libModel(st, callee, cc, args, dst, resT); done {
		return cont, ex
	}
	// contract?
	if c := e.eng.contractFor(callee); c != nil && !c.Inline {
		return e.callByContract(st, c, callee, args, resT, dst, cc)
	}
	// inline small loop-free functions of the repository
	if e.eng.inRepo(callee) && e.canInline(callee) && e.depth < 6 {
		return e.inlineCall(st, callee, fv, args, dst)
	}
	// havoc by footprint
	e.havocForCall(st, callee, cc, args)
	res := e.freshVal(st, "call."+callee.Name(), resT)
	e.setResult(st, dst, res)
	if e.eng.inRepo(callee) {
		e.libUsed["havoc:"+callee.String()] = true
		if e.eng.maySoftPanic(callee) {
			sp := e.sc.fresh("sp."+callee.Name(), "Bool")
			es := st.clone()
			es.pc = e.sc.define("pc", "Bool", and(st.pc, sp))
			st.pc = e.sc.define("pc", "Bool", and(st.pc, not(sp)))
			return true, e.softExit(es, e.softPanicValue(es))
		}
	} else {
		e.libUsed["ext:"+callee.String()] = true
	}
	return true, nil
}

// softPanicValue: a non-nil error value that is not a runtime.Error.
func (e *Exec) softPanicValue(st *State) string {
	v := e.sc.fresh("pv", "Iface")
	e.assume(st, fmt.Sprintf("(and (> (i-tag %s) 0) (%s (i-tag %s)))", v, e.softTagPred(), v))
	return v
}

func (e *Exec) softTagPred() string {
	if !e.sc.funs["softtag"] {
		e.sc.funs["softtag"] = true
		e.sc.emit("(declare-fun softtag (Int) Bool)")
	}
	return "softtag"
}

func (e *Exec) canInline(f *ssa.Function) bool {
	if len(f.Blocks) == 0 || len(f.Blocks) > 40 {
		return false
	}
	if f.Recover != nil {
		return false
	}
	n := 0
	for _, b := range f.Blocks {
		n += len(b.Instrs)
		for _, s := range b.Succs {
			if s.Dominates(b) {
				return false // loop
			}
		}
		for _, ins := range b.Instrs {
			if c, ok := ins.(*ssa.Call); ok {
				if c.Call.StaticCallee() == f {
					return false
				}
			}
		}
	}
	if n > 400 {
		return false
	}
	return !e.eng.isRecursive(f)
}

func (e *Exec) inlineCall(st *State, callee *ssa.Function, fv Val, args []Val, dst ssa.Value) (bool, []Exit) {
	e.depth++
	defer func() { e.depth-- }()
	// the callee executes on the caller's state with its own value map
	saved := st.vals
	savedDefers := st.defers
	st.vals = map[ssa.Value]Val{}
	st.defers = nil
	for i, p := range callee.Params {
		if i < len(args) {
			v := args[i]
			v.T = p.Type()
			st.vals[p] = v
		}
	}
	for i, fvv := range callee.FreeVars {
		if i < len(fv.Bind) {
			st.vals[fvv] = fv.Bind[i]
		}
	}
	exits := e.run(callee, st, nil)
	var rets []*State
	var soft []Exit
	var results [][]Val
	for _, ex := range exits {
		ex.st.vals = cloneVals(saved)
		ex.st.defers = savedDefers
		if ex.kind == exitReturn {
			rets = append(rets, ex.st)
			results = append(results, ex.results)
		} else {
			soft = append(soft, ex)
		}
	}
	if len(rets) == 0 {
		st.pc = "false"
		st.vals = saved
		return false, soft
	}
	// merge return states; results are merged as a tuple under a synthetic key
	var resVal Val
	if len(rets) == 1 {
		*st = *rets[0]
		resVal = packResults(results[0])
	} else {
		key := &ssa.Parameter{}
		for i, s := range rets {
			s.vals[key] = packResults(results[i])
		}
		m := e.merge(rets, "ret."+callee.Name())
		resVal = m.vals[key]
		delete(m.vals, key)
		*st = *m
	}
	if dst != nil {
		if resVal.T == nil {
			resVal.T = dst.Type()
		}
		st.vals[dst] = resVal
	}
	return true, soft
}

func cloneVals(m map[ssa.Value]Val) map[ssa.Value]Val {
	n := make(map[ssa.Value]Val, len(m))
	for k, v := range m {
		n[k] = v
	}
	return n
}

func packResults(rs []Val) Val {
	switch len(rs) {
	case 0:
		return Val{T: types.NewTuple(), Tup: []Val{}}
	case 1:
		return rs[0]
	}
	return Val{T: types.NewTuple(), Tup: rs}
}

// havocForCall forgets every memory region the callee may write. Keys the
// callee writes only at references it allocated itself are left alone: the
// caller knows nothing about memory at unallocated references, so the old
// array is a sound stand-in (DESIGN §2.2 "Heap").
func (e *Exec) havocForCall(st *State, callee *ssa.Function, cc *ssa.CallCommon, args []Val) {
	keys := map[string]string{}
	all := false
	if callee != nil && e.eng.inRepo(callee) {
		fp := e.eng.footprint(callee, e.sc)
		for k, s := range fp.keys {
			if fp.old[k] {
				keys[k] = s
			}
		}
		all = fp.all
		e.callExcept = fp.except
		defer func() { e.callExcept = nil }()
		// interior pointers passed in: the callee's writes through them land in the caller-side storage
		for _, a := range args {
			if a.A != nil {
				e.argKeys(a, keys)
			}
		}
	} else {
		// external / dynamic: may write through pointer and slice arguments only (assumption A-ext)
		if callee == nil || !pureExternal(callee) {
			for _, a := range args {
				e.argKeys(a, keys)
			}
		}
		if cc != nil && cc.IsInvoke() {
			fp := e.eng.invokeFootprint(cc, e.sc)
			for k, s := range fp.keys {
				if fp.old[k] {
					keys[k] = s
				}
			}
			all = all || fp.all
		}
	}
	e.havocKeys(st, keys, all)
}

func (e *Exec) argKeys(a Val, keys map[string]string) {
	if a.T == nil {
		return
	}
	if a.A != nil {
		if s, ok := e.memSort[a.A.Key]; ok {
			keys[a.A.Key] = s
		}
		return
	}
	switch u := a.T.Underlying().(type) {
	case *types.Pointer:
		e.eng.pointeeKeys(u.Elem(), e.sc, keys)
	case *types.Slice:
		k, s := e.elemKey(u.Elem())
		keys[k] = s
	case *types.Map:
		e.eng.mapKeysOf(u, e.sc, keys)
	}
}

// privateCells: captured variables of the closure under verification whose address never leaves
// it (only loaded from and stored to). No callee can reach such a cell, so a havoc on behalf of a
// call keeps its contents; `written` lists the ones the enclosing loop body stores to itself.
func (e *Exec) privateCells(st *State, written map[*ssa.FreeVar]bool) map[string][]string {
	out := map[string][]string{}
	for _, fv := range e.fn.FreeVars {
		pt, ok := fv.Type().Underlying().(*types.Pointer)
		if !ok || written[fv] {
			continue
		}
		leaked := false
		for _, r := range *fv.Referrers() {
			switch x := r.(type) {
			case *ssa.UnOp:
				if x.Op != token.MUL {
					leaked = true
				}
			case *ssa.Store:
				if x.Val == fv {
					leaked = true
				}
			case *ssa.DebugRef:
			default:
				leaked = true
			}
		}
		v, has := st.vals[fv]
		if leaked || !has || v.A != nil || v.S == "" {
			continue
		}
		k, _ := e.cellKey(pt.Elem())
		out[k] = append(out[k], v.S)
	}
	// variables of the function itself that are captured by closures which are only returned:
	// until the function returns nobody else holds their address
	if e.curFn == nil || e.curFn == e.fn {
		for _, b := range e.fn.Blocks {
			for _, ins := range b.Instrs {
				al, ok := ins.(*ssa.Alloc)
				if !ok || !al.Heap {
					continue
				}
				if written != nil {
					// at a loop head: only variables the loop body does not assign itself
					assigned := false
					for _, r := range *al.Referrers() {
						if sto, ok := r.(*ssa.Store); ok && sto.Addr == ssa.Value(al) && e.loopBody != nil && e.loopBody[sto.Block()] {
							assigned = true
						}
					}
					if assigned || e.loopBody == nil {
						continue
					}
				}
				v, has := st.vals[al]
				if !has || v.A != nil || v.S == "" || !onlyReturned(al) {
					continue
				}
				k, _ := e.cellKey(al.Type().(*types.Pointer).Elem())
				if _, known := e.memSort[k]; !known {
					continue
				}
				out[k] = append(out[k], v.S)
			}
		}
	}
	return out
}

// onlyReturned: the address of the cell is used for loads and stores and captured by closures
// whose value flows nowhere but into return instructions.
func onlyReturned(al *ssa.Alloc) bool {
	var flowsToReturn func(v ssa.Value, depth int) bool
	flowsToReturn = func(v ssa.Value, depth int) bool {
		if depth > 4 || v.Referrers() == nil {
			return false
		}
		for _, r := range *v.Referrers() {
			switch x := r.(type) {
			case *ssa.Return, *ssa.DebugRef:
			case *ssa.ChangeType:
				if !flowsToReturn(x, depth+1) {
					return false
				}
			case *ssa.Call:
				// handed to sync.Once.Do, which runs it at once and does not keep it
				cal := x.Call.StaticCallee()
				if cal == nil || cal.String() != "(*sync.Once).Do" {
					return false
				}
			default:
				return false
			}
		}
		return true
	}
	for _, r := range *al.Referrers() {
		switch x := r.(type) {
		case *ssa.UnOp:
			if x.Op != token.MUL {
				return false
			}
		case *ssa.Store:
			if x.Val == al {
				return false
			}
		case *ssa.DebugRef:
		case *ssa.MakeClosure:
			if !flowsToReturn(x, 0) {
				return false
			}
		default:
			return false
		}
	}
	return true
}

func (e *Exec) havocKeys(st *State, keys map[string]string, all bool) {
	e.havocKeysW(st, keys, all, nil)
}

// keepsType: the contract of the callee being havocked for says (`preserves_types A B`) that it
// never writes fields of objects of these struct types (a trusted frame statement).
func (e *Exec) keepsType(key string) bool {
	if len(e.keepTypes) == 0 || !strings.HasPrefix(key, "H|") {
		return false
	}
	parts := strings.Split(key, "|")
	if len(parts) < 3 {
		return false
	}
	for _, t := range e.keepTypes {
		if parts[1] == t || strings.HasSuffix(parts[1], "."+t) {
			return true
		}
	}
	return false
}

// privateMaps: maps made by the function under verification that never leave it (only looked up,
// updated, ranged over, measured): no callee can reach them. At a loop head (body != nil) only
// those the loop body does not update itself.
func (e *Exec) privateMaps(st *State, body map[*ssa.BasicBlock]bool) []*ssa.MakeMap {
	var out []*ssa.MakeMap
	if e.curFn != nil && e.curFn != e.fn {
		return nil
	}
	for _, b := range e.fn.Blocks {
		for _, ins := range b.Instrs {
			mm, ok := ins.(*ssa.MakeMap)
			if !ok {
				continue
			}
			if v, has := st.vals[mm]; !has || v.S == "" {
				continue
			}
			private := true
			for _, r := range *mm.Referrers() {
				switch x := r.(type) {
				case *ssa.Lookup, *ssa.Range, *ssa.DebugRef:
				case *ssa.MapUpdate:
					if x.Map != mm || x.Key == ssa.Value(mm) || x.Value == ssa.Value(mm) {
						private = false
					}
					if body != nil && body[x.Block()] {
						private = false
					}
				case *ssa.Call:
					bi, isB := x.Call.Value.(*ssa.Builtin)
					if !isB || (bi.Name() != "len" && bi.Name() != "delete") {
						private = false
					}
					if isB && bi.Name() == "delete" && body != nil && body[x.Block()] {
						private = false
					}
				default:
					private = false
				}
			}
			if private {
				out = append(out, mm)
			}
		}
	}
	return out
}

func (e *Exec) havocKeysW(st *State, keys map[string]string, all bool, written map[*ssa.FreeVar]bool) {
	e.havocKeysB(st, keys, all, written, nil)
}

func (e *Exec) havocKeysB(st *State, keys map[string]string, all bool, written map[*ssa.FreeVar]bool, body map[*ssa.BasicBlock]bool) {
	e.loopBody = body
	defer func() { e.loopBody = nil }()
	var havocked []string
	explicit := map[string]bool{}
	for k := range keys {
		explicit[k] = true
	}
	priv := e.privateCells(st, written)
	if written == nil || body != nil {
		for _, mm := range e.privateMaps(st, body) {
			mt := mm.Type().Underlying().(*types.Map)
			dk, _, vk, _ := e.mapKeys(mt)
			ref := st.vals[mm].S
			priv[dk] = append(priv[dk], ref)
			priv[vk] = append(priv[vk], ref)
			priv["MN"] = append(priv["MN"], ref)
		}
	}
	if all {
		saved := e.keepTypes
		if body != nil && len(e.loopExcept) > 0 {
			e.keepTypes = append(append([]string(nil), saved...), e.loopExcept...)
		} else if body == nil && len(e.callExcept) > 0 {
			e.keepTypes = append(append([]string(nil), saved...), e.callExcept...)
		}
		for k, s := range e.memSort {
			if strings.HasPrefix(k, "L|") || strings.HasPrefix(k, "IT|") || k == "top" || strings.HasPrefix(k, "ghost|") {
				continue
			}
			if !explicit[k] && e.keepsType(k) {
				continue
			}
			keys[k] = s
		}
		e.keepTypes = saved
		st.mem["*all"] = "1"
	}
	for _, k := range sortedKeys(keys) {
		srt := keys[k]
		if e.keepsType(k) && body == nil {
			continue
		}
		before := e.memGet(st, k, srt) // make sure the entry value exists (for old())
		nv := e.sc.fresh("hv."+k, srt)
		for _, ref := range priv[k] {
			nv = fmt.Sprintf("(store %s %s (select %s %s))", nv, ref, before, ref)
		}
		if len(priv[k]) > 0 {
			nv = e.sc.define("hvp."+k, srt, nv)
		}
		st.mem[k] = nv
		havocked = append(havocked, k)
	}
	// allocation may have happened
	t := e.top(st)
	nt := e.sc.fresh("top", "Int")
	e.sc.assert(imp(st.pc, fmt.Sprintf("(>= %s %s)", nt, t)))
	st.mem["top"] = nt
	for _, k := range havocked {
		e.touch(st, k)
	}
}

// ---------- builtins ----------

func (e *Exec) builtin(st *State, b *ssa.Builtin, cc *ssa.CallCommon, args []Val, dst ssa.Value) (bool, []Exit) {
	pos := cc.Pos()
	switch b.Name() {
	case "len", "cap":
		v := args[0]
		var term string
		switch u := cc.Args[0].Type().Underlying().(type) {
		case *types.Slice:
			term = "(s-" + b.Name() + " " + v.S + ")"
		case *types.Basic:
			term = "(str-len " + v.S + ")"
		case *types.Array:
			term = e.sc.idxLit(u.Len())
		case *types.Pointer:
			term = e.sc.idxLit(u.Elem().Underlying().(*types.Array).Len())
		case *types.Map:
			e.mapLenFacts(st, v.S)
			term = e.mapLen(st, v.S)
		case *types.Chan:
			term = e.sc.fresh("chanlen", e.sc.idx())
			e.assume(st, e.le(e.sc.idxLit(0), term))
		}
		e.setResult(st, dst, Val{T: tInt, S: e.sc.define("len", e.sc.idx(), term)})
	case "append":
		e.appendOp(st, cc, args, dst)
	case "copy":
		e.copyOp(st, cc, args, dst)
	case "delete":
		mt := cc.Args[0].Type().Underlying().(*types.Map)
		// delete on nil map is a no-op
		live := st.clone()
		_ = live
		e.mapStoreGuard(st, mt, args[0].S, args[1].S)
	case "close":
		if e.eng.tmClose != nil {
			e.eng.tmClose(e, st, cc, args)
		}
		if e.curFn == e.fn && len(args) == 1 && args[0].S != "" {
			cur := e.closeCount(st)
			st.mem["ghost|close_count"] = e.sc.define("g.close_count", e.memSort["ghost|close_count"],
				fmt.Sprintf("(store %s %s %s)", cur, args[0].S, e.add(fmt.Sprintf("(select %s %s)", cur, args[0].S), e.sc.idxLit(1))))
		}
	case "recover":
		if e.recvDepth > 0 && e.recoverVal != "" {
			e.recovered = true
			e.setResult(st, dst, Val{T: dst.Type(), S: e.recoverVal})
		} else {
			e.setResult(st, dst, Val{T: dst.Type(), S: "(mk-iface 0 0)"})
		}
	case "print", "println":
	case "min", "max":
		if len(args) == 2 && isIntType(args[0].T) {
			_, signed, _ := intWidth(args[0].T.Underlying().(*types.Basic))
			var lt string
			if e.mode == ModeBV {
				if signed {
					lt = fmt.Sprintf("(bvslt %s %s)", args[0].S, args[1].S)
				} else {
					lt = fmt.Sprintf("(bvult %s %s)", args[0].S, args[1].S)
				}
			} else {
				lt = fmt.Sprintf("(< %s %s)", args[0].S, args[1].S)
			}
			if b.Name() == "min" {
				e.setResult(st, dst, Val{T: args[0].T, S: e.sc.define("min", e.sc.sortOf(args[0].T), ite(lt, args[0].S, args[1].S))})
			} else {
				e.setResult(st, dst, Val{T: args[0].T, S: e.sc.define("max", e.sc.sortOf(args[0].T), ite(lt, args[1].S, args[0].S))})
			}
		} else if dst != nil {
			e.setResult(st, dst, e.freshVal(st, b.Name(), dst.Type()))
		}
	default:
		if dst != nil {
			e.note("builtin %s abstracted", b.Name())
			e.setResult(st, dst, e.freshVal(st, b.Name(), dst.Type()))
		}
	}
	_ = pos
	return true, nil
}

func (e *Exec) mapStoreGuard(st *State, mt *types.Map, m, key string) {
	// delete(m,k): no-op on nil map
	dk, dsrt, _, _ := e.mapKeys(mt)
	before := e.memGet(st, dk, dsrt)
	nsrt := fmt.Sprintf("(Array Int %s)", e.sc.idx())
	nBefore := e.memGet(st, "MN", nsrt)
	e.mapStore(st, mt, m, key, "", false)
	isNil := fmt.Sprintf("(= %s 0)", m)
	e.memSet(st, dk, dsrt, ite(isNil, before, st.mem[dk]))
	e.memSet(st, "MN", nsrt, ite(isNil, nBefore, st.mem["MN"]))
}

func (e *Exec) appendOp(st *State, cc *ssa.CallCommon, args []Val, dst ssa.Value) {
	sl := cc.Args[0].Type().Underlying().(*types.Slice)
	lits, n := e.varargElems(st, cc.Args[1])
	var litv []string
	if lits != nil {
		litv = lits[:n]
	}
	res := e.appendVals(st, sl.Elem(), args[0], args[1], isString(cc.Args[1].Type()), litv)
	e.setResult(st, dst, Val{T: cc.Args[0].Type(), S: res})
}

// appendVals: the model of append(s, t...) (or of the literal elements lits):
// a fresh backing array that is a copy of the old one (same offset) with the
// new elements written after the old length.
func (e *Exec) appendVals(st *State, elem types.Type, s, t Val, tIsString bool, lits []string) string {
	k, srt := e.elemKey(elem)
	m := e.memGet(st, k, srt)
	idx := e.sc.idx()
	es := e.sc.sortOf(elem)
	var tlen, tarr, toff string
	switch {
	case lits != nil:
		tlen = e.sc.idxLit(int64(len(lits)))
	case tIsString:
		tlen, tarr, toff = "(str-len "+t.S+")", "(str-arr "+t.S+")", "(str-off "+t.S+")"
	default:
		tlen, tarr, toff = "(s-len "+t.S+")", fmt.Sprintf("(select %s (s-base %s))", m, t.S), "(s-off "+t.S+")"
	}
	slen, soff := "(s-len "+s.S+")", "(s-off "+s.S+")"
	nlen := e.sc.define("applen", idx, e.add(slen, tlen))
	// assumption (stated in the evidence): a slice never grows beyond 2^40 elements
	e.assume(st, e.le(nlen, e.sc.idxLit(maxLen)))
	ref := e.allocRef(st)
	oldArr := fmt.Sprintf("(select %s (s-base %s))", m, s.S)
	var newArr string
	if lits != nil {
		newArr = oldArr
		for i := range lits {
			newArr = fmt.Sprintf("(store %s %s %s)", newArr, e.add(e.add(soff, slen), e.sc.idxLit(int64(i))), lits[i])
		}
	} else {
		na := e.sc.fresh("apparr", fmt.Sprintf("(Array %s %s)", idx, es))
		start := e.sc.define("appstart", idx, e.add(soff, slen))
		e.assume(st, fmt.Sprintf("(forall ((k %s)) (! (=> %s (= (select %s k) (select %s k))) :pattern ((select %s k))))",
			idx, e.lt("k", start), na, oldArr, na))
		e.assume(st, fmt.Sprintf("(forall ((k %s)) (! (=> (and %s %s) (= (select %s %s) (select %s %s))) :pattern ((select %s %s)) :pattern ((select %s %s))))",
			idx, e.le(e.sc.idxLit(0), "k"), e.lt("k", tlen), na, e.add(start, "k"), tarr, e.add(toff, "k"), na, e.add(start, "k"), tarr, e.add(toff, "k")))
		// ... and as a fact the engine instantiates itself at the skolem constants of quantified goals
		e.sc.n++
		qv := fmt.Sprintf("q.app.%d", e.sc.n)
		e.sc.registerSkolemOnly(imp(st.pc, fmt.Sprintf("(forall ((%s %s)) (=> (and %s %s) (= (select %s %s) (select %s %s))))",
			qv, idx, e.le(e.sc.idxLit(0), qv), e.lt(qv, tlen), na, e.add(start, qv), tarr, e.add(toff, qv))))
		// the same fact by absolute position (matches every read of the new array)
		e.assume(st, fmt.Sprintf("(forall ((k %s)) (! (=> (and %s %s) (= (select %s k) (select %s %s))) :pattern ((select %s k))))",
			idx, e.le(start, "k"), e.lt("k", e.add(start, tlen)), na, tarr, e.add(toff, e.sub("k", start)), na))
		newArr = na
	}
	m = e.memGet(st, k, srt)
	e.memSet(st, k, srt, fmt.Sprintf("(store %s %s %s)", m, ref, newArr))
	nc := e.sc.fresh("appcap", idx)
	e.assume(st, and(e.le(nlen, nc), e.le(nc, e.sc.idxLit(maxLen+maxLen))))
	// within capacity the runtime appends in place: the capacity is the old one
	e.assume(st, imp(e.le(nlen, "(s-cap "+s.S+")"), eq(nc, "(s-cap "+s.S+")")))
	return e.sc.define("app", "Slice", fmt.Sprintf("(mk-slice %s %s %s %s)", ref, soff, nlen, nc))
}

// varargElems recognises `append(s, a, b, c)`: the second argument is a slice
// of a fresh local array whose elements were just stored.
func (e *Exec) varargElems(st *State, v ssa.Value) ([]string, int) {
	sl, ok := v.(*ssa.Slice)
	if !ok || sl.Low != nil || sl.High != nil {
		return nil, 0
	}
	al, ok := sl.X.(*ssa.Alloc)
	if !ok || al.Comment != "varargs" {
		return nil, 0
	}
	arr := al.Type().(*types.Pointer).Elem().Underlying().(*types.Array)
	n := int(arr.Len())
	if n > 32 {
		return nil, 0
	}
	pv := st.vals[al]
	var cur string
	if pv.A != nil {
		cur = e.project(e.rootLoad(st, pv.A), pv.A.Steps)
	} else {
		k, srt := e.cellKey(arr)
		cur = fmt.Sprintf("(select %s %s)", e.memGet(st, k, srt), pv.S)
	}
	cur = e.sc.define("va", e.sc.sortOf(arr), cur)
	var out []string
	for i := 0; i < n; i++ {
		out = append(out, fmt.Sprintf("(select %s %s)", cur, e.sc.idxLit(int64(i))))
	}
	return out, n
}

func (e *Exec) copyOp(st *State, cc *ssa.CallCommon, args []Val, dst ssa.Value) {
	d, s := args[0], args[1]
	dl := cc.Args[0].Type().Underlying().(*types.Slice)
	k, srt := e.elemKey(dl.Elem())
	m := e.memGet(st, k, srt)
	idx := e.sc.idx()
	var slen, sarr, soff string
	if isString(cc.Args[1].Type()) {
		slen, sarr, soff = "(str-len "+s.S+")", "(str-arr "+s.S+")", "(str-off "+s.S+")"
	} else {
		slen, sarr, soff = "(s-len "+s.S+")", fmt.Sprintf("(select %s (s-base %s))", m, s.S), "(s-off "+s.S+")"
	}
	dlen, doff := "(s-len "+d.S+")", "(s-off "+d.S+")"
	n := e.sc.define("copyn", idx, ite(e.lt(slen, dlen), slen, dlen))
	na := e.sc.fresh("cparr", fmt.Sprintf("(Array %s %s)", idx, e.sc.sortOf(dl.Elem())))
	oldArr := fmt.Sprintf("(select %s (s-base %s))", m, d.S)
	e.assume(st, fmt.Sprintf("(forall ((k %s)) (! (= (select %s k) (ite (and %s %s) (select %s %s) (select %s k))) :pattern ((select %s k))))",
		idx, na, e.le(doff, "k"), e.lt("k", e.add(doff, n)), sarr, e.add(soff, e.sub("k", doff)), oldArr, na))
	e.memSet(st, k, srt, fmt.Sprintf("(store %s (s-base %s) %s)", m, d.S, na))
	e.setResult(st, dst, Val{T: tInt, S: n})
}

var _ = token.NoPos

// countCall maintains the ghost counter <name>_calls for functions/methods the
// contract under verification asks to count (`count_calls A B ...`): usable in
// postconditions ("Encode is called iff the compression flag is set").
// recordRet stores the first result of a counted call in the ghost <name>_ret0.
func (e *Exec) recordRet(st *State, name string, dst ssa.Value) {
	if e.fc == nil || !e.ownCode() || dst == nil {
		return
	}
	for _, cl := range e.fc.Lists["count_calls"] {
		for _, n := range strings.Fields(cl.Expr) {
			if n != name {
				continue
			}
			v, ok := st.vals[dst]
			if !ok {
				continue
			}
			rs := []Val{v}
			if v.Tup != nil {
				rs = v.Tup
			}
			for i, r := range rs {
				if r.A != nil || r.Fn != nil || r.Tup != nil || r.S == "" || r.T == nil {
					continue
				}
				g := fmt.Sprintf("%s_ret%d", strings.ReplaceAll(name, ".", "_"), i)
				e.ghostGet(st, g, r.T, e.sc.zero(r.T))
				e.ghostSet(st, g, r.T, r.S)
				if i == 0 {
					// every first result, by call ordinal (nth(callee, k) in contracts)
					ga := strings.ReplaceAll(name, ".", "_") + "_rets"
					at := types.NewArray(r.T, 1)
					arr := e.ghostGet(st, ga, at, e.sc.zero(at))
					cnt := e.ghostGet(st, strings.ReplaceAll(name, ".", "_")+"_calls", tInt, e.sc.idxLit(0))
					e.ghostSet(st, ga, at, fmt.Sprintf("(store %s %s %s)", arr.S, cnt.S, r.S))
					e.rawGhost[ga] = true
				}
			}
		}
	}
}

func (e *Exec) countCall(st *State, name string) {
	if e.fc == nil || !e.ownCode() {
		return
	}
	for _, cl := range e.fc.Lists["count_calls"] {
		for _, n := range strings.Fields(cl.Expr) {
			if n == name {
				g := strings.ReplaceAll(name, ".", "_")
				cur := e.ghostGet(st, g+"_calls", tInt, e.sc.idxLit(0))
				e.ghostSet(st, g+"_calls", tInt, e.add(cur.S, e.sc.idxLit(1)))
			}
		}
	}
}

// beforeCall: `before <callee>: <expr>` clauses are obligations at every call of
// <callee> in the function under contract (then assumed).
func (e *Exec) beforeCall(st *State, name string, pos token.Pos, args []Val) {
	if e.fc == nil || !e.ownCode() {
		return
	}
	for _, cl := range e.fc.Lists["use_before"] {
		// use_before <callee>: <axiom_ax(args)> — instance of an axiom schema, assumed at the call
		j := strings.Index(cl.Expr, ":")
		if j < 0 || strings.TrimSpace(cl.Expr[:j]) != name {
			continue
		}
		c := e.specEnv(st, e.entry)
		if e.curInstr != nil && e.curInstr.Block() != nil {
			dummy := &loopInfo{header: e.curInstr.Block(), body: map[*ssa.BasicBlock]bool{}}
			for k, v := range e.loopVars(e.fn, dummy, st, e.curInstr.Block()) {
				if _, isParam := c.vars[k]; !isParam {
					c.vars[k] = v
				}
			}
		}
		if err := e.useHint(c, st, strings.TrimSpace(cl.Expr[j+1:])); err != nil {
			e.note("CONTRACT-ERROR use_before: %v", err)
		}
	}
	for i, cl := range e.fc.Lists["before"] {
		j := strings.Index(cl.Expr, ":")
		if j < 0 || strings.TrimSpace(cl.Expr[:j]) != name {
			continue
		}
		skip := false
		var props []string
		for _, p := range cl.Props {
			if strings.HasPrefix(p, "@") {
				if !e.sct.matches(p[1:]) {
					skip = true
				}
			} else {
				props = append(props, p)
			}
		}
		if skip {
			continue
		}
		cl.Props = props
		cl.Expr = e.sct.subst(cl.Expr)
		c := e.specEnv(st, e.entry)
		// local variables visible at the call site
		if e.curInstr != nil && e.curInstr.Block() != nil {
			dummy := &loopInfo{header: e.curInstr.Block(), body: map[*ssa.BasicBlock]bool{}}
			for k, v := range e.loopVars(e.fn, dummy, st, e.curInstr.Block()) {
				if _, isParam := c.vars[k]; !isParam {
					c.vars[k] = v
				}
			}
		}
		for ai, a := range args {
			if a.A == nil && a.Fn == nil && a.Tup == nil && a.S != "" {
				c.vars[fmt.Sprintf("arg%d", ai)] = a
			}
		}
		// in_loop: ordinal of the innermost loop of the function the call site is in (-1: none)
		inLoop := -1
		if e.curInstr != nil && e.curInstr.Block() != nil {
			var best *loopInfo
			for _, l := range findLoopsCached(e.fn) {
				if l.body[e.curInstr.Block()] && (best == nil || len(l.body) < len(best.body)) {
					best = l
				}
			}
			if best != nil {
				inLoop = best.ordinal
			}
		}
		c.vars["in_loop"] = Val{T: tInt, S: e.sc.idxLit(int64(inLoop))}
		c.where = fmt.Sprintf("%s:%d", cl.File, cl.Line)
		// reachability of this call site under the contracts used so far (once per site): a site the
		// solver proves unreachable makes every clause about it vacuous - reported, unless the clause
		// itself says the site is unreachable (`false`)
		if strings.TrimSpace(cl.Expr[j+1:]) != "false" {
			key := fmt.Sprintf("%d:%s@%d", i, name, pos)
			if e.siteCovered == nil {
				e.siteCovered = map[string]bool{}
			}
			if !e.siteCovered[key] && st.pc != "false" {
				e.siteCovered[key] = true
				// grouped by clause (within this scenario / variant run): the clause is vacuous only if none of
				// the call sites it applies to is reachable
				e.siteCovers = append(e.siteCovers, &Obligation{Name: fmt.Sprintf("%s%s#cover#site:%d:%s@%s", e.fn.String(), scenSuffix(e.sct.name), i, name, e.eng.posString(pos)), Kind: "cover", Func: e.fn.String(),
					Prefix: e.sc.mark(), Goal: "false", PC: st.pc, Script: e.sc, Expect: "sat", Props: e.propsDef, Site: true, Pos: e.eng.posString(pos),
					Group: fmt.Sprintf("%s%s#before#%d %s (%s:%d)", e.fn.String(), scenSuffix(e.sct.name), i, name, cl.File, cl.Line)})
			}
		}
		// `in_loop == K ==> ...`: the clause is about the call sites in loop K; elsewhere it holds
		// trivially (and its locals may be out of scope)
		if m := inLoopGuard.FindStringSubmatch(strings.TrimSpace(cl.Expr[j+1:])); m != nil {
			if k, _ := strconv.Atoi(m[1]); k != inLoop {
				continue
			}
		}
		if e.beforeHits == nil {
			e.beforeHits = map[int]int{}
		}
		e.beforeHits[i]++
		t, err := c.evalBool(strings.TrimSpace(cl.Expr[j+1:]))
		if err != nil {
			e.note("CONTRACT-ERROR before: %v", err)
			continue
		}
		saved := e.propsDef
		if len(cl.Props) > 0 {
			e.propsDef = cl.Props
		}
		if _, lean := e.fc.Flags["lean_before"]; lean {
			// checked, but not added to the path condition (keeps the later obligations small when a
			// function has many before-clauses that nothing afterwards depends on)
			e.checkPost(st, "before", fmt.Sprintf("%s.%d", name, i), t, e.propsDef, e.eng.posString(pos))
		} else {
			e.check(st, "before", fmt.Sprintf("%s.%d", name, i), t, pos)
		}
		e.propsDef = saved
	}
}

var auditDead = os.Getenv("GOVC_DEAD") != ""

var inLoopGuard = regexp.MustCompile(`^in_loop == (-?[0-9]+) ==> `)

// staticQualName: "<ReceiverTypeName>.<method>" of a method called statically (for count_calls and
// before-clauses when several methods share a name, e.g. ring.removeHost / Session.removeHost).
func staticQualName(f *ssa.Function) string {
	if f == nil || f.Signature == nil || f.Signature.Recv() == nil {
		return ""
	}
	t := f.Signature.Recv().Type()
	if p, ok := t.(*types.Pointer); ok {
		t = p.Elem()
	}
	if n, ok := t.(*types.Named); ok {
		return n.Obj().Name() + "." + f.Name()
	}
	return ""
}

// qualName: "<InterfaceType>.<Method>" of an interface call (for count_calls).
func qualName(cc *ssa.CallCommon) string {
	if !cc.IsInvoke() {
		return ""
	}
	t := cc.Value.Type()
	if n, ok := t.(*types.Named); ok {
		return n.Obj().Name() + "." + cc.Method.Name()
	}
	return "." + cc.Method.Name()
}

// specEnvLocals: contract environment with the local variables visible at the current instruction.
func (e *Exec) specEnvLocals(st *State) *specCtx {
	c := e.specEnv(st, e.entry)
	if e.curInstr != nil && e.curInstr.Block() != nil {
		dummy := &loopInfo{header: e.curInstr.Block(), body: map[*ssa.BasicBlock]bool{}}
		for k, v := range e.loopVars(e.fn, dummy, st, e.curInstr.Block()) {
			if _, isParam := c.vars[k]; !isParam {
				c.vars[k] = v
			}
		}
	}
	return c
}

// ownCode: is the code being executed the function under verification itself or one of its own
// closures running inline (e.g. the function handed to sync.Once.Do)? Calls made there are counted
// and checked against the before-clauses like the function's own calls.
func (e *Exec) ownCode() bool {
	if e.curFn == nil || e.curFn == e.fn {
		return true
	}
	for p := e.curFn.Parent(); p != nil; p = p.Parent() {
		if p == e.fn {
			return true
		}
	}
	return false
}
