package main

// Assumed contracts of library functions (DESIGN §2.2 "Calls (c)"). Every use
// is recorded in libUsed and reported in the evidence as an assumption.

import (
	"go/token"
	"fmt"
	"go/constant"
	"go/types"
	"math/big"
	"strings"

	"golang.org/x/tools/go/ssa"
)

func (e *Exec) nonNilIface(st *State, prefix string, t types.Type) Val {
	v := e.freshVal(st, prefix, t)
	e.assume(st, fmt.Sprintf("(> (i-tag %s) 0)", v.S))
	return v
}

// newError: a fresh non-nil error whose dynamic type is an ordinary (non-runtime) error.
func (e *Exec) newError(st *State, t types.Type) Val {
	v := e.nonNilIface(st, "err", t)
	e.assume(st, fmt.Sprintf("(%s (i-tag %s))", e.softTagPred(), v.S))
	return v
}

func (e *Exec) be(st *State, arr, off string, n int) string {
	// big-endian load of n bytes (bv mode)
	var parts []string
	for i := 0; i < n; i++ {
		parts = append(parts, fmt.Sprintf("(select %s %s)", arr, e.add(off, e.sc.idxLit(int64(i)))))
	}
	if n == 1 {
		return parts[0]
	}
	return "(concat " + strings.Join(parts, " ") + ")"
}

func (e *Exec) leLoad(st *State, arr, off string, n int) string {
	var parts []string
	for i := n - 1; i >= 0; i-- {
		parts = append(parts, fmt.Sprintf("(select %s %s)", arr, e.add(off, e.sc.idxLit(int64(i)))))
	}
	return "(concat " + strings.Join(parts, " ") + ")"
}

func (e *Exec) sliceArr(st *State, s Val, elem types.Type) (arr, off, ln string) {
	k, srt := e.elemKey(elem)
	m := e.memGet(st, k, srt)
	return fmt.Sprintf("(select %s (s-base %s))", m, s.S), "(s-off " + s.S + ")", "(s-len " + s.S + ")"
}

var tByte = types.Typ[types.Uint8]

// libModel returns done=true if the call was handled by a library model.
func (e *Exec) libModel(st *State, callee *ssa.Function, cc *ssa.CallCommon, args []Val, dst ssa.Value, resT types.Type) (done, cont bool, exits []Exit) {
	name := callee.String()
	if callee.Origin() != nil {
		name = callee.Origin().String()
	}
	used := func() { e.libUsed["lib:"+name] = true }
	set := func(v Val) { e.setResult(st, dst, v) }
	pos := cc.Pos()
	switch name {
	case "gopkg.in/inf.v0.NewDecBig", "gopkg.in/inf.v0.NewDec", "math/big.NewInt", "time.NewTimer", "time.NewTicker", "time.AfterFunc":
		used()
		r := e.freshVal(st, "newobj", resT)
		e.assume(st, fmt.Sprintf("(not (= %s 0))", r.S))
		set(r)
		return true, true, nil
	case "github.com/pierrec/lz4/v4.CompressBlockBound":
		// assumed: the bound is at least the input size (n + n/255 + 16)
		used()
		r := e.freshVal(st, "lz4bound", resT)
		e.assume(st, and(e.le(args[0].S, r.S), e.le(r.S, e.sc.idxLit(maxLen))))
		set(r)
		return true, true, nil
	case "(*github.com/pierrec/lz4/v4.Compressor).CompressBlock", "github.com/pierrec/lz4/v4.UncompressBlock", "github.com/pierrec/lz4/v4.CompressBlock":
		// assumed: writes a prefix of dst and returns its length n, 0 <= n <= len(dst); n == 0 on error
		used()
		dstv := args[len(args)-1]
		k, srt := e.elemKey(tByte)
		m := e.memGet(st, k, srt)
		na := e.sc.fresh("lz4arr", fmt.Sprintf("(Array %s %s)", e.sc.idx(), e.sc.byteSort()))
		lo := e.sc.define("lzlo", e.sc.idx(), "(s-off "+dstv.S+")")
		hi := e.sc.define("lzhi", e.sc.idx(), e.add("(s-off "+dstv.S+")", "(s-len "+dstv.S+")"))
		e.assume(st, fmt.Sprintf("(forall ((k %s)) (! (=> (or %s %s) (= (select %s k) (select (select %s (s-base %s)) k))) :pattern ((select %s k))))",
			e.sc.idx(), e.lt("k", lo), e.le(hi, "k"), na, m, dstv.S, na))
		e.memSet(st, k, srt, fmt.Sprintf("(store %s (s-base %s) %s)", m, dstv.S, na))
		n := e.sc.fresh("lz4n", e.sc.idx())
		errv := e.freshVal(st, "lz4err", types.Universe.Lookup("error").Type())
		e.assume(st, and(e.le(e.sc.idxLit(0), n), e.le(n, "(s-len "+dstv.S+")"), imp(fmt.Sprintf("(not (= (i-tag %s) 0))", errv.S), eq(n, e.sc.idxLit(0)))))
		set(Val{T: resT, Tup: []Val{{T: tInt, S: n}, errv}})
		return true, true, nil
	case "(*crypto/tls.Config).Clone":
		// assumed: Clone returns a fresh Config whose (exported and unexported) fields equal the receiver's;
		// nil receiver gives nil
		used()
		ct := cc.Args[0].Type().Underlying().(*types.Pointer).Elem()
		u := ct.Underlying().(*types.Struct)
		ref := e.allocRef(st)
		for i := 0; i < u.NumFields(); i++ {
			k, srt := e.heapKey(ct, i)
			m := e.memGet(st, k, srt)
			e.memSet(st, k, srt, fmt.Sprintf("(store %s %s (select %s %s))", m, ref, m, args[0].S))
		}
		set(Val{T: resT, S: e.sc.define("clone", "Int", ite(eq(args[0].S, "0"), "0", ref))})
		return true, true, nil
	case "crypto/x509.NewCertPool", "crypto/tls.Client":
		used()
		r := e.freshVal(st, "newobj", resT)
		e.assume(st, fmt.Sprintf("(not (= %s 0))", r.S))
		set(r)
		return true, true, nil
	case "(*net.Buffers).WriteTo":
		// assumed (net.Buffers.WriteTo / writev): writes a prefix of the concatenation of the
		// buffers and returns its length n; n < total length => err != nil
		if e.mode != ModeInt {
			break
		}
		used()
		e.eng.spec.need(e.sc, "psum")
		bufs := e.load(st, args[0])
		k, srt := e.elemKey(types.NewSlice(tByte))
		m := e.memGet(st, k, srt)
		total := fmt.Sprintf("(psum (select %s (s-base %s)) (s-off %s) (s-len %s))", m, bufs.S, bufs.S, bufs.S)
		n := e.sc.fresh("wn", "Int")
		errv := e.freshVal(st, "werr", types.Universe.Lookup("error").Type())
		e.assume(st, and(fmt.Sprintf("(<= 0 %s)", n), fmt.Sprintf("(<= %s %s)", n, total), imp(fmt.Sprintf("(< %s %s)", n, total), fmt.Sprintf("(not (= (i-tag %s) 0))", errv.S))))
		// the receiver is consumed (modified in place): its slice header, and the elements of the array
		// behind it (written frames are set to nil, a cut frame is advanced to its unwritten rest)
		e.memSet(st, k, srt, fmt.Sprintf("(store %s (s-base %s) %s)", m, bufs.S, e.sc.fresh("consumedArr", fmt.Sprintf("(Array %s %s)", e.sc.idx(), e.sc.sortOf(types.NewSlice(tByte))))))
		e.store(st, args[0], e.freshVal(st, "consumed", bufs.T))
		set(Val{T: resT, Tup: []Val{{T: types.Typ[types.Int64], S: n}, errv}})
		return true, true, nil
	case "context.WithCancel", "context.WithTimeout", "context.WithDeadline", "context.Background", "context.TODO", "context.WithValue":
		used()
		r := e.freshVal(st, "ctx", resT)
		if r.Tup != nil {
			e.assume(st, fmt.Sprintf("(> (i-tag %s) 0)", r.Tup[0].S))
		} else {
			e.assume(st, fmt.Sprintf("(> (i-tag %s) 0)", r.S))
		}
		set(r)
		return true, true, nil
	case "bytes.NewBuffer":
		// model: a Buffer is a heap object whose field buf holds the unread bytes (off == 0)
		used()
		bt := resT.Underlying().(*types.Pointer).Elem()
		ref := e.allocRef(st)
		e.bufSet(st, bt, ref, args[0].S)
		set(Val{T: resT, S: ref})
		return true, true, nil
	case "(*bytes.Buffer).Write", "(*bytes.Buffer).WriteString", "(*bytes.Buffer).WriteByte":
		used()
		bt := cc.Args[0].Type().Underlying().(*types.Pointer).Elem()
		e.checkNonNil(st, args[0].S, "bytes.Buffer", pos)
		cur := Val{T: types.NewSlice(tByte), S: e.bufGet(st, bt, args[0].S)}
		var res string
		switch name {
		case "(*bytes.Buffer).WriteByte":
			res = e.appendVals(st, tByte, cur, Val{}, false, []string{args[1].S})
			set(Val{T: resT, S: "(mk-iface 0 0)"})
		case "(*bytes.Buffer).WriteString":
			res = e.appendVals(st, tByte, cur, args[1], true, nil)
			set(Val{T: resT, Tup: []Val{{T: tInt, S: "(str-len " + args[1].S + ")"}, {T: types.Universe.Lookup("error").Type(), S: "(mk-iface 0 0)"}}})
		default:
			res = e.appendVals(st, tByte, cur, args[1], false, nil)
			set(Val{T: resT, Tup: []Val{{T: tInt, S: "(s-len " + args[1].S + ")"}, {T: types.Universe.Lookup("error").Type(), S: "(mk-iface 0 0)"}}})
		}
		e.bufSet(st, bt, args[0].S, res)
		return true, true, nil
	case "(*bytes.Buffer).Bytes":
		used()
		bt := cc.Args[0].Type().Underlying().(*types.Pointer).Elem()
		e.checkNonNil(st, args[0].S, "bytes.Buffer", pos)
		set(Val{T: resT, S: e.bufGet(st, bt, args[0].S)})
		return true, true, nil
	case "(*bytes.Buffer).Len":
		used()
		bt := cc.Args[0].Type().Underlying().(*types.Pointer).Elem()
		set(Val{T: resT, S: "(s-len " + e.bufGet(st, bt, args[0].S) + ")"})
		return true, true, nil
	case "fmt.Errorf", "errors.New":
		used()
		set(e.newError(st, resT))
		return true, true, nil
	case "fmt.Sprintf", "fmt.Sprint", "fmt.Sprintln", "strconv.Itoa", "strconv.FormatInt", "strconv.FormatUint", "strconv.Quote", "(time.Time).String", "(time.Duration).String", "strings.Join", "strings.ToLower", "strings.ToUpper", "strings.TrimSpace", "strings.Repeat", "strings.Replace", "strings.ReplaceAll", "strings.Title", "strings.Trim", "strings.TrimLeft", "strings.TrimRight", "encoding/hex.EncodeToString", "(*strings.Builder).String", "(*bytes.Buffer).String":
		used()
		set(e.freshVal(st, "str", resT))
		return true, true, nil
	case "(encoding/binary.bigEndian).Uint16", "(encoding/binary.bigEndian).Uint32", "(encoding/binary.bigEndian).Uint64",
		"(encoding/binary.littleEndian).Uint16", "(encoding/binary.littleEndian).Uint32", "(encoding/binary.littleEndian).Uint64":
		if e.mode != ModeBV {
			break
		}
		used()
		n := 2
		if strings.HasSuffix(name, "32") {
			n = 4
		} else if strings.HasSuffix(name, "64") {
			n = 8
		}
		b := args[len(args)-1]
		arr, off, ln := e.sliceArr(st, b, tByte)
		e.check(st, "index", "binary:"+e.srcText(pos), e.le(e.sc.idxLit(int64(n)), ln), pos)
		var t string
		if strings.Contains(name, "bigEndian") {
			t = e.be(st, arr, off, n)
		} else {
			t = e.leLoad(st, arr, off, n)
		}
		set(Val{T: resT, S: e.sc.define("ld", e.sc.sortOf(resT), t)})
		return true, true, nil
	case "(encoding/binary.bigEndian).PutUint16", "(encoding/binary.bigEndian).PutUint32", "(encoding/binary.bigEndian).PutUint64":
		if e.mode != ModeBV {
			break
		}
		used()
		n := 2
		if strings.HasSuffix(name, "32") {
			n = 4
		} else if strings.HasSuffix(name, "64") {
			n = 8
		}
		b, v := args[len(args)-2], args[len(args)-1]
		k, srt := e.elemKey(tByte)
		m := e.memGet(st, k, srt)
		e.check(st, "index", "binary:"+e.srcText(pos), e.le(e.sc.idxLit(int64(n)), "(s-len "+b.S+")"), pos)
		arr := fmt.Sprintf("(select %s (s-base %s))", m, b.S)
		for i := 0; i < n; i++ {
			hi := (n-i)*8 - 1
			arr = fmt.Sprintf("(store %s %s ((_ extract %d %d) %s))", arr, e.add("(s-off "+b.S+")", e.sc.idxLit(int64(i))), hi, hi-7, v.S)
		}
		e.memSet(st, k, srt, fmt.Sprintf("(store %s (s-base %s) %s)", m, b.S, arr))
		return true, true, nil
	case "sync/atomic.LoadUint32", "sync/atomic.LoadUint64", "sync/atomic.LoadInt32", "sync/atomic.LoadInt64":
		if e.eng.tmAtomic != nil {
			if e.eng.tmAtomic(e, st, name, cc, args, dst) {
				return true, true, nil
			}
		}
		used()
		if args[0].A == nil {
			e.checkNonNil(st, args[0].S, "atomic", pos)
		}
		set(e.load(st, args[0]))
		return true, true, nil
	case "sync/atomic.StoreUint32", "sync/atomic.StoreUint64", "sync/atomic.StoreInt32", "sync/atomic.StoreInt64":
		if e.eng.tmAtomic != nil {
			if e.eng.tmAtomic(e, st, name, cc, args, dst) {
				return true, true, nil
			}
		}
		used()
		e.store(st, args[0], args[1])
		return true, true, nil
	case "sync/atomic.AddUint32", "sync/atomic.AddUint64", "sync/atomic.AddInt32", "sync/atomic.AddInt64":
		if e.eng.tmAtomic != nil {
			if e.eng.tmAtomic(e, st, name, cc, args, dst) {
				return true, true, nil
			}
		}
		used()
		old := e.load(st, args[0])
		var nv string
		if e.mode == ModeBV {
			nv = fmt.Sprintf("(bvadd %s %s)", old.S, args[1].S)
		} else {
			nv = fmt.Sprintf("(+ %s %s)", old.S, args[1].S)
		}
		v := Val{T: old.T, S: e.sc.define("atomadd", e.sc.sortOf(old.T), nv)}
		e.store(st, args[0], v)
		set(v)
		return true, true, nil
	case "sync/atomic.CompareAndSwapUint32", "sync/atomic.CompareAndSwapUint64", "sync/atomic.CompareAndSwapInt32", "sync/atomic.CompareAndSwapInt64":
		if e.eng.tmAtomic != nil {
			if e.eng.tmAtomic(e, st, name, cc, args, dst) {
				return true, true, nil
			}
		}
		used()
		old := e.load(st, args[0])
		ok := e.sc.define("casok", "Bool", eq(old.S, args[1].S))
		nv := Val{T: old.T, S: e.sc.define("casnv", e.sc.sortOf(old.T), ite(ok, args[2].S, old.S))}
		e.store(st, args[0], nv)
		set(Val{T: tBool, S: ok})
		return true, true, nil
	case "(*sync.Once).Do":
		// runs the function unless this Once has fired before; the flag is the real field done.v
		if args[1].Fn == nil {
			break
		}
		used()
		ot := cc.Args[0].Type().Underlying().(*types.Pointer).Elem()
		fidx := func(t types.Type, name string) int {
			u := t.Underlying().(*types.Struct)
			for i := 0; i < u.NumFields(); i++ {
				if u.Field(i).Name() == name {
					return i
				}
			}
			return -1
		}
		di := fidx(ot, "done")
		if di < 0 {
			break
		}
		doneAddr := e.fieldAddrOf(st, args[0], ot, di, pos)
		dt := ot.Underlying().(*types.Struct).Field(di).Type()
		flagAddr := doneAddr
		if _, isStruct := dt.Underlying().(*types.Struct); isStruct {
			vi := fidx(dt, "v")
			if vi < 0 {
				break
			}
			flagAddr = e.fieldAddrOf(st, doneAddr, dt, vi, pos)
		}
		cur := e.load(st, flagAddr)
		zero := e.sc.zero(cur.T)
		fired := e.sc.define("oncefired", "Bool", not(eq(cur.S, zero)))
		s1 := st.clone()
		s1.pc = e.sc.define("pc", "Bool", and(st.pc, fired))
		s2 := st.clone()
		s2.pc = e.sc.define("pc", "Bool", and(st.pc, not(fired)))
		ok2, soft := e.inlineCall(s2, args[1].Fn, args[1], nil, nil)
		var live []*State
		live = append(live, s1)
		if ok2 {
			one := "#x00000001"
			if e.mode != ModeBV {
				one = "1"
			}
			e.store(s2, flagAddr, Val{T: cur.T, S: one})
			live = append(live, s2)
		}
		m := e.merge(live, "once")
		*st = *m
		return true, true, soft
	case "container/list.New", "(*container/list.List).Len", "(*container/list.List).PushFront", "(*container/list.List).PushBack",
		"(*container/list.List).Back", "(*container/list.List).Front", "(*container/list.List).MoveToFront", "(*container/list.List).Remove":
		if e.listModel(st, name, cc, args, resT, set) {
			used()
			return true, true, nil
		}
	case "(net.IP).String":
		if e.mode != ModeBV {
			used()
			set(e.freshVal(st, "str", resT))
			return true, true, nil
		}
		// deterministic: the textual form is a function of the address bytes
		used()
		e.eng.spec.need(e.sc, "ip_str")
		v := Val{T: resT, S: e.sc.define("ipstr", "Str", fmt.Sprintf("(ip_str %s)", args[0].S))}
		e.assumeWF(st, v)
		set(v)
		return true, true, nil
	case "(net.IP).IsUnspecified":
		if e.mode != ModeBV {
			break
		}
		used()
		e.eng.spec.need(e.sc, "ip_unspec")
		set(Val{T: resT, S: e.sc.define("unspec", "Bool", fmt.Sprintf("(ip_unspec %s)", args[0].S))})
		return true, true, nil
	case "sort.Sort", "sort.Stable":
		// the elements of the sorted slice are permuted (what order results is not modelled).
		// Which slice: the boxed slice itself, or the one named by `sorts <expr>` in the contract
		// of the receiver type's Swap method.
		if sl, et, ok := e.sortedSlice(st, cc, args); ok {
			used()
			e.permuteSlice(st, sl, et)
			return true, true, nil
		}
	case "sort.Search":
		// binary search over [0,n): some index in [0,n]; the predicate closure is assumed to
		// read only (true of the ring lookups that use it). Which index is not modelled.
		used()
		r := e.sc.fresh("search", e.sc.idx())
		z := e.sc.idxLit(0)
		e.assume(st, and(e.le(z, r), or(e.le(r, args[0].S), and(e.lt(args[0].S, z), eq(r, z)))))
		// what binary search guarantees for any predicate: the predicate holds at the result
		// (unless the result is n) and fails just before it (unless the result is 0)
		rv := Val{T: tInt, S: r}
		if t1, ok := e.closureBool(st, args[1], rv, e.lt(r, args[0].S)); ok {
			e.assume(st, imp(e.lt(r, args[0].S), t1))
			one := e.sc.idxLit(1)
			rm := Val{T: tInt, S: e.sc.define("searchm1", e.sc.idx(), e.sub(r, one))}
			if t2, ok := e.closureBool(st, args[1], rm, and(e.lt(z, r), e.le(r, args[0].S))); ok {
				e.assume(st, imp(and(e.lt(z, r), e.le(r, args[0].S)), not(t2)))
			}
		}
		set(Val{T: resT, S: r})
		return true, true, nil
	case "(*sync/atomic.Value).Load", "(*sync/atomic.Value).Store":
		// sequential model of atomic.Value: the boxed value lives in the struct's field v.
		// (Writers of the values modelled here serialise on a mutex; a reader sees one stored value.)
		used()
		vt := cc.Args[0].Type().Underlying().(*types.Pointer).Elem()
		fa := e.fieldAddrOf(st, args[0], vt, 0, pos)
		if name == "(*sync/atomic.Value).Load" {
			set(e.load(st, fa))
		} else {
			e.check(st, "panic", "atomic.Value.Store(nil)", fmt.Sprintf("(not (= (i-tag %s) 0))", args[1].S), pos)
			e.store(st, fa, args[1])
		}
		return true, true, nil
	case "(*sync.Mutex).Lock", "(*sync.Mutex).Unlock", "(*sync.RWMutex).Lock", "(*sync.RWMutex).Unlock", "(*sync.RWMutex).RLock", "(*sync.RWMutex).RUnlock":
		if e.eng.tmLock != nil {
			e.eng.tmLock(e, st, name, cc, args)
		}
		// ghost: which mutexes (fields of heap objects) the function under verification holds - `held(x.mu)` in
		// contracts; at entry nothing is known (a caller may hold any of them)
		if len(args) > 0 {
			if a := e.addrOf(st, args[0]); a != nil && a.Kind == AHeap && len(a.Steps) == 0 && a.Ref != "" {
				key := "ghost|held:" + a.Key
				m := e.memGet(st, key, "(Array Int Bool)")
				v := "false"
				if strings.HasSuffix(name, "Lock") && !strings.HasSuffix(name, "Unlock") {
					v = "true"
				}
				e.memSet(st, key, "(Array Int Bool)", fmt.Sprintf("(store %s %s %s)", m, a.Ref, v))
			}
		}
		return true, true, nil
	case "(*sync.WaitGroup).Add", "(*sync.WaitGroup).Done", "(*sync.WaitGroup).Wait", "runtime.Gosched", "time.Sleep",
		"(*log.Logger).Printf", "(*log.Logger).Println", "(*log.Logger).Print", "log.Printf", "log.Println", "log.Print":
		return true, true, nil
	case "io.ReadFull":
		used()
		// reads exactly len(buf) bytes or returns an error; the bytes are arbitrary
		b := args[1]
		k, srt := e.elemKey(tByte)
		m := e.memGet(st, k, srt)
		na := e.sc.fresh("rdarr", fmt.Sprintf("(Array %s %s)", e.sc.idx(), e.sc.byteSort()))
		// only the bytes of the destination slice change
		lo := e.sc.define("rdlo", e.sc.idx(), "(s-off "+b.S+")")
		hi := e.sc.define("rdhi", e.sc.idx(), e.add("(s-off "+b.S+")", "(s-len "+b.S+")"))
		e.assume(st, fmt.Sprintf("(forall ((k %s)) (! (=> (or %s %s) (= (select %s k) (select (select %s (s-base %s)) k))) :pattern ((select %s k))))",
			e.sc.idx(), e.lt("k", lo), e.le(hi, "k"), na, m, b.S, na))
		e.memSet(st, k, srt, fmt.Sprintf("(store %s (s-base %s) %s)", m, b.S, na))
		n := e.sc.fresh("rdn", e.sc.idx())
		errv := e.freshVal(st, "rderr", types.Universe.Lookup("error").Type())
		e.assume(st, and(e.le(e.sc.idxLit(0), n), e.le(n, "(s-len "+b.S+")"),
			fmt.Sprintf("(= (= (i-tag %s) 0) (= %s (s-len %s)))", errv.S, n, b.S)))
		set(Val{T: resT, Tup: []Val{{T: tInt, S: n}, errv}})
		return true, true, nil
	case "strings.HasPrefix", "strings.HasSuffix":
		used()
		sv, pv := args[0], args[1]
		r := e.freshVal(st, "hasfix", resT)
		// result => len(s) >= len(prefix); with a constant prefix the result is exact
		e.assume(st, imp(r.S, e.le("(str-len "+pv.S+")", "(str-len "+sv.S+")")))
		if c, ok := cc.Args[1].(*ssa.Const); ok && c.Value != nil && name == "strings.HasPrefix" {
			pre := constantString(c)
			if len(pre) <= 64 {
				parts := []string{e.le(e.sc.idxLit(int64(len(pre))), "(str-len "+sv.S+")")}
				for i := 0; i < len(pre); i++ {
					parts = append(parts, eq(fmt.Sprintf("(select (str-arr %s) %s)", sv.S, e.add("(str-off "+sv.S+")", e.sc.idxLit(int64(i)))), e.sc.byteLit(int(pre[i]))))
				}
				e.assume(st, eq(r.S, and(parts...)))
			}
		}
		set(r)
		return true, true, nil
	case "strings.TrimPrefix", "strings.TrimSuffix":
		used()
		r := e.freshVal(st, "trim", resT)
		e.assume(st, e.le("(str-len "+r.S+")", "(str-len "+args[0].S+")"))
		set(r)
		return true, true, nil
	case "strings.Contains", "strings.ContainsRune", "strings.EqualFold":
		used()
		set(e.freshVal(st, "strpred", resT))
		return true, true, nil
	case "strings.Split", "strings.SplitN", "strings.Fields", "strings.FieldsFunc":
		used()
		set(e.freshVal(st, "strsplit", resT))
		return true, true, nil
	case "strings.Index", "strings.LastIndex", "strings.IndexByte", "strings.LastIndexByte", "strings.IndexRune":
		used()
		r := e.freshVal(st, "stridx", resT)
		// -1 or a position inside s
		e.assume(st, and(e.le(e.sc.idxLit(-1), r.S), e.lt(r.S, "(str-len "+args[0].S+")")))
		if e.mode == ModeBV && (name == "strings.Index" || name == "strings.LastIndex") {
			// a found separator lies inside s (the byte / rune variants take a scalar, not a string)
			e.assume(st, or(eq(r.S, e.sc.idxLit(-1)), e.le(e.add(r.S, "(str-len "+args[len(args)-1].S+")"), "(str-len "+args[0].S+")")))
		}
		if name == "strings.IndexByte" || name == "strings.LastIndexByte" {
			at := fmt.Sprintf("(select (str-arr %s) %s)", args[0].S, e.add("(str-off "+args[0].S+")", r.S))
			e.assume(st, imp(not(eq(r.S, e.sc.idxLit(-1))), eq(at, args[1].S)))
		}
		if c, ok := cc.Args[len(cc.Args)-1].(*ssa.Const); ok && (name == "strings.Index" || name == "strings.LastIndex") {
			if sep := constantString(c); len(sep) == 1 {
				// the separator is found at the reported position
				at := fmt.Sprintf("(select (str-arr %s) %s)", args[0].S, e.add("(str-off "+args[0].S+")", r.S))
				e.assume(st, imp(not(eq(r.S, e.sc.idxLit(-1))), eq(at, e.sc.byteLit(int(sep[0])))))
				// ... and it is the first (Index) / the last (LastIndex) one: no separator before / after it
				e.sc.n++
				q := fmt.Sprintf("q.sep.%d", e.sc.n)
				elem := fmt.Sprintf("(select (str-arr %s) %s)", args[0].S, e.add("(str-off "+args[0].S+")", q))
				inStr := and(e.le(e.sc.idxLit(0), q), e.lt(q, "(str-len "+args[0].S+")"))
				var rng string
				if name == "strings.Index" {
					rng = and(inStr, or(eq(r.S, e.sc.idxLit(-1)), e.lt(q, r.S)))
				} else {
					rng = and(inStr, e.lt(r.S, q))
				}
				e.assume(st, fmt.Sprintf("(forall ((%s %s)) (=> %s (not (= %s %s))))", q, e.sc.idx(), rng, elem, e.sc.byteLit(int(sep[0]))))
			}
		}
		set(r)
		return true, true, nil
	case "bytes.Equal":
		used()
		set(e.freshVal(st, "beq", resT))
		return true, true, nil
	case "math.Float32bits", "math.Float64bits", "math.Float32frombits", "math.Float64frombits":
		set(Val{T: resT, S: args[0].S})
		return true, true, nil
	case "math/bits.LeadingZeros32", "math/bits.LeadingZeros64", "math/bits.LeadingZeros8", "math/bits.Len64", "math/bits.Len32", "math/bits.TrailingZeros64", "math/bits.OnesCount64":
		if e.mode == ModeBV {
			if t, ok := e.bitsModel(st, name, args[0]); ok {
				used()
				set(Val{T: resT, S: e.sc.define("bits", e.sc.sortOf(resT), t)})
				return true, true, nil
			}
		}
	case "(time.Time).UTC", "(time.Time).In", "(time.Time).Local":
		// the same instant in another location: seconds, nanoseconds and zero-ness are those of the receiver
		used()
		r := e.freshVal(st, "time", resT)
		e.timeFuns(args[0].T)
		for _, f := range []string{"time.unix", "time.nsec", "time.unixnano", "time.iszero"} {
			e.assume(st, eq(fmt.Sprintf("(%s %s)", f, r.S), fmt.Sprintf("(%s %s)", f, args[0].S)))
		}
		set(r)
		return true, true, nil
	case "(time.Time).Unix", "(time.Time).UnixNano", "(time.Time).Nanosecond", "(time.Time).IsZero":
		// observers of an instant: uninterpreted functions of the time value (no relation between
		// Unix/Nanosecond and UnixNano is assumed: UnixNano is undefined outside 1678..2262)
		used()
		e.timeFuns(args[0].T)
		switch name {
		case "(time.Time).Unix":
			set(Val{T: resT, S: fmt.Sprintf("(time.unix %s)", args[0].S)})
		case "(time.Time).UnixNano":
			set(Val{T: resT, S: fmt.Sprintf("(time.unixnano %s)", args[0].S)})
		case "(time.Time).IsZero":
			set(Val{T: resT, S: fmt.Sprintf("(time.iszero %s)", args[0].S)})
		default:
			t := fmt.Sprintf("(time.nsec %s)", args[0].S)
			e.assume(st, and(e.le(e.sc.idxLit(0), t), e.lt(t, e.sc.idxLit(1000000000))))
			set(Val{T: resT, S: t})
		}
		return true, true, nil
	case "time.Unix":
		// time.Unix(sec, nsec): the instant sec seconds + nsec nanoseconds after the epoch; nsec outside
		// [0, 1e9) is carried into the seconds exactly as the library does (floored quotient and remainder)
		used()
		r := e.freshVal(st, "time", resT)
		e.timeFuns(resT)
		var q, rem, zeroSec, zero string
		if e.mode == ModeBV {
			giga := bvLit(big.NewInt(1000000000), 64)
			zero = bvLit(big.NewInt(0), 64)
			q0 := fmt.Sprintf("(bvsdiv %s %s)", args[1].S, giga)
			r0 := fmt.Sprintf("(bvsrem %s %s)", args[1].S, giga)
			neg := fmt.Sprintf("(bvslt %s %s)", r0, zero)
			q = e.sc.define("tq", e.sc.idx(), ite(neg, fmt.Sprintf("(bvsub %s %s)", q0, bvLit(big.NewInt(1), 64)), q0))
			rem = e.sc.define("tr", e.sc.idx(), ite(neg, fmt.Sprintf("(bvadd %s %s)", r0, giga), r0))
			zeroSec = bvLit(big.NewInt(-62135596800), 64)
		} else {
			zero = "0"
			q = fmt.Sprintf("(div %s 1000000000)", args[1].S)
			rem = fmt.Sprintf("(mod %s 1000000000)", args[1].S)
			zeroSec = "(- 62135596800)"
		}
		unix := e.add(args[0].S, q)
		e.assume(st, eq(fmt.Sprintf("(time.unix %s)", r.S), unix))
		e.assume(st, eq(fmt.Sprintf("(time.nsec %s)", r.S), rem))
		e.assume(st, eq(fmt.Sprintf("(time.iszero %s)", r.S), and(eq(unix, zeroSec), eq(rem, zero))))
		set(r)
		return true, true, nil
	case "time.Now", "(time.Time).Add", "(time.Time).Truncate", "time.Since", "(time.Time).Sub":
		used()
		set(e.freshVal(st, "time", resT))
		return true, true, nil
	}
	// prefix families
	switch {
	case strings.HasPrefix(name, "(reflect.") || strings.HasPrefix(name, "reflect.") || strings.HasPrefix(name, "(*reflect."):
		return e.reflectModel(st, name, callee, cc, args, dst, resT)
	}
	return false, true, nil
}

// timeFuns declares the observers of time.Time values.
func (e *Exec) timeFuns(t types.Type) {
	if e.sc.funs["time.unix"] {
		return
	}
	e.sc.funs["time.unix"] = true
	srt := e.sc.sortOf(t)
	i64 := e.sc.sortOf(types.Typ[types.Int64])
	e.sc.emit(fmt.Sprintf("(declare-fun time.unix (%s) %s)", srt, i64))
	e.sc.emit(fmt.Sprintf("(declare-fun time.unixnano (%s) %s)", srt, i64))
	e.sc.emit(fmt.Sprintf("(declare-fun time.nsec (%s) %s)", srt, e.sc.idx()))
	e.sc.emit(fmt.Sprintf("(declare-fun time.iszero (%s) Bool)", srt))
}

func (e *Exec) bitsModel(st *State, name string, x Val) (string, bool) {
	w := 64
	switch {
	case strings.HasSuffix(name, "32"):
		w = 32
	case strings.HasSuffix(name, "8"):
		w = 8
	}
	rs := e.sc.sortOf(tInt)
	lit := func(n int) string { return e.sc.idxLit(int64(n)) }
	_ = rs
	switch {
	case strings.Contains(name, "LeadingZeros"):
		// nested ite over the position of the highest set bit
		t := lit(w)
		for i := 0; i < w; i++ {
			// bit i set and all above clear => w-1-i ; build from low to high so the highest wins
			t = fmt.Sprintf("(ite (= ((_ extract %d %d) %s) #b1) %s %s)", i, i, x.S, lit(w-1-i), t)
		}
		return t, true
	case strings.Contains(name, "Len"):
		t := lit(0)
		for i := 0; i < w; i++ {
			t = fmt.Sprintf("(ite (= ((_ extract %d %d) %s) #b1) %s %s)", i, i, x.S, lit(i+1), t)
		}
		return t, true
	}
	return "", false
}

// reflectModel: safety contracts of the reflect subset (DESIGN §2.2); results are opaque.
func (e *Exec) reflectModel(st *State, name string, callee *ssa.Function, cc *ssa.CallCommon, args []Val, dst ssa.Value, resT types.Type) (bool, bool, []Exit) {
	pos := cc.Pos()
	switch name {
	case "reflect.MakeSlice":
		e.libUsed["lib:"+name] = true
		l, c := e.toIdx(st, args[1]), e.toIdx(st, args[2])
		e.check(st, "make", "reflect.MakeSlice:"+e.srcText(pos), and(e.le(e.sc.idxLit(0), l), e.le(l, c), e.le(c, e.sc.idxLit(maxLen))), pos)
		e.allocCheck(st, e.curInstr, l, c)
		e.setResult(st, dst, e.freshVal(st, "rv", resT))
		return true, true, nil
	case "(reflect.Value).Type", "reflect.TypeOf":
		e.libUsed["lib:"+name] = true
		if name == "reflect.TypeOf" {
			e.setResult(st, dst, e.freshVal(st, "rtype", resT))
		} else {
			e.setResult(st, dst, e.nonNilIface(st, "rtype", resT))
		}
		return true, true, nil
	case "reflect.MakeMapWithSize":
		e.libUsed["lib:"+name] = true
		e.setResult(st, dst, e.freshVal(st, "rv", resT))
		return true, true, nil
	}
	return false, true, nil
}

func constantString(c *ssa.Const) string {
	if c.Value == nil || c.Value.Kind() != constant.String {
		return ""
	}
	return constant.StringVal(c.Value)
}

// bytes.Buffer model: the struct field `buf` holds the contents.
func (e *Exec) bufField(bt types.Type) int {
	u := bt.Underlying().(*types.Struct)
	for i := 0; i < u.NumFields(); i++ {
		if u.Field(i).Name() == "buf" {
			return i
		}
	}
	return 0
}

func (e *Exec) bufGet(st *State, bt types.Type, ref string) string {
	k, srt := e.heapKey(bt, e.bufField(bt))
	v := e.sc.define("bbuf", "Slice", fmt.Sprintf("(select %s %s)", e.memGet(st, k, srt), ref))
	e.assume(st, e.wfB(st, Val{T: types.NewSlice(tByte), S: v}, e.refBound(st, k)))
	return v
}

func (e *Exec) bufSet(st *State, bt types.Type, ref, val string) {
	k, srt := e.heapKey(bt, e.bufField(bt))
	m := e.memGet(st, k, srt)
	e.memSet(st, k, srt, fmt.Sprintf("(store %s %s %s)", m, ref, val))
}

// fieldAddrOf: the address of field i of the struct p points to (as ssa.FieldAddr would compute it).
func (e *Exec) fieldAddrOf(st *State, p Val, stt types.Type, field int, pos token.Pos) Val {
	ft := stt.Underlying().(*types.Struct).Field(field).Type()
	if p.A != nil {
		na := *p.A
		na.Steps = append(append([]step(nil), p.A.Steps...), step{field: field, st: stt})
		na.T = ft
		return Val{T: types.NewPointer(ft), A: &na}
	}
	e.checkNonNil(st, p.S, "field", pos)
	k, _ := e.heapKey(stt, field)
	return Val{T: types.NewPointer(ft), A: &Addr{Kind: AHeap, Key: k, Ref: p.S, Root: ft, T: ft}}
}

func (e *Exec) sortedSlice(st *State, cc *ssa.CallCommon, args []Val) (string, types.Type, bool) {
	mi, ok := cc.Args[0].(*ssa.MakeInterface)
	if !ok {
		return "", nil, false
	}
	xt := mi.X.Type()
	xv := e.val(st, mi.X)
	if u, ok := xt.Underlying().(*types.Slice); ok && xv.S != "" {
		return xv.S, u.Elem(), true
	}
	// pointer receiver with a Swap method under contract: `sorts recv.field`
	ms := e.eng.prog.MethodSets.MethodSet(xt)
	for i := 0; i < ms.Len(); i++ {
		if ms.At(i).Obj().Name() != "Swap" {
			continue
		}
		f := e.eng.prog.MethodValue(ms.At(i))
		if f == nil {
			continue
		}
		fc := e.eng.contractFor(f)
		if fc == nil {
			continue
		}
		expr, ok := fc.Flags["sorts"]
		if !ok || len(f.Params) == 0 {
			continue
		}
		c := e.specEnv(st, nil)
		c.vars = map[string]Val{f.Params[0].Name(): xv}
		v, err := c.evalExpr(strings.TrimSpace(expr))
		if err != nil {
			e.note("sorts clause of %s: %v", f.String(), err)
			return "", nil, false
		}
		if u, ok := v.T.Underlying().(*types.Slice); ok {
			return v.S, u.Elem(), true
		}
	}
	return "", nil, false
}

func (e *Exec) permuteSlice(st *State, sl string, et types.Type) {
	k, srt := e.elemKey(et)
	m := e.memGet(st, k, srt)
	idx := e.sc.idx()
	es := e.sc.sortOf(et)
	e.sc.n++
	n := e.sc.n
	perm, pinv := fmt.Sprintf("perm!%d", n), fmt.Sprintf("pinv!%d", n)
	e.sc.emit(fmt.Sprintf("(declare-fun %s (%s) %s)", perm, idx, idx))
	e.sc.emit(fmt.Sprintf("(declare-fun %s (%s) %s)", pinv, idx, idx))
	e.sc.permFuns = append(e.sc.permFuns, perm)
	oldArr := e.sc.define("sortold", fmt.Sprintf("(Array %s %s)", idx, es), fmt.Sprintf("(select %s (s-base %s))", m, sl))
	newArr := e.sc.fresh("sortnew", fmt.Sprintf("(Array %s %s)", idx, es))
	off, ln := "(s-off "+sl+")", "(s-len "+sl+")"
	z := e.sc.idxLit(0)
	qv := fmt.Sprintf("q.sort.%d", n)
	inr := func(t string) string { return and(e.le(z, t), e.lt(t, ln)) }
	e.assume(st, fmt.Sprintf("(forall ((%s %s)) (=> %s (and %s (= (select %s %s) (select %s %s)))))", qv, idx, inr(qv),
		inr("("+perm+" "+qv+")"), newArr, e.add(off, qv), oldArr, e.add(off, "("+perm+" "+qv+")")))
	qw := fmt.Sprintf("q.sorti.%d", n)
	e.assume(st, fmt.Sprintf("(forall ((%s %s)) (=> %s (and %s (= (select %s %s) (select %s %s)))))", qw, idx, inr(qw),
		inr("("+pinv+" "+qw+")"), newArr, e.add(off, "("+pinv+" "+qw+")"), oldArr, e.add(off, qw)))
	qo := fmt.Sprintf("q.sorto.%d", n)
	e.assume(st, fmt.Sprintf("(forall ((%s %s)) (=> (not %s) (= (select %s %s) (select %s %s))))", qo, idx,
		and(e.le(off, qo), e.lt(qo, e.add(off, ln))), newArr, qo, oldArr, qo))
	m = e.memGet(st, k, srt)
	e.memSet(st, k, srt, fmt.Sprintf("(store %s (s-base %s) %s)", m, sl, newArr))
}

// container/list, abstractly: a list is its length (field len) and the set of elements whose
// field `list` points to it; an element carries its Value. Order is not modelled.
func (e *Exec) listModel(st *State, name string, cc *ssa.CallCommon, args []Val, resT types.Type, set func(Val)) bool {
	var listT, elemT types.Type
	find := func(t types.Type) {
		if p, ok := t.Underlying().(*types.Pointer); ok {
			if n, ok := p.Elem().(*types.Named); ok && n.Obj().Pkg() != nil && n.Obj().Pkg().Path() == "container/list" {
				if n.Obj().Name() == "List" {
					listT = n
				} else if n.Obj().Name() == "Element" {
					elemT = n
				}
			}
		}
	}
	sig := cc.Signature()
	if sig.Recv() != nil {
		find(sig.Recv().Type())
	}
	for i := 0; i < sig.Params().Len(); i++ {
		find(sig.Params().At(i).Type())
	}
	for i := 0; i < sig.Results().Len(); i++ {
		find(sig.Results().At(i).Type())
	}
	if listT == nil {
		return false
	}
	if elemT == nil {
		elemT = listT.(*types.Named).Obj().Pkg().Scope().Lookup("Element").Type()
	}
	field := func(t types.Type, name string) int {
		u := t.Underlying().(*types.Struct)
		for i := 0; i < u.NumFields(); i++ {
			if u.Field(i).Name() == name {
				return i
			}
		}
		return 0
	}
	lenK, lenS := e.heapKey(listT, field(listT, "len"))
	valK, valS := e.heapKey(elemT, field(elemT, "Value"))
	ownK, ownS := e.heapKey(elemT, field(elemT, "list"))
	getLen := func(l string) string { return fmt.Sprintf("(select %s %s)", e.memGet(st, lenK, lenS), l) }
	setLen := func(l, v string) {
		e.memSet(st, lenK, lenS, fmt.Sprintf("(store %s %s %s)", e.memGet(st, lenK, lenS), l, v))
	}
	one := e.sc.idxLit(1)
	z := e.sc.idxLit(0)
	switch name {
	case "container/list.New":
		ref := e.allocRef(st)
		setLen(ref, z)
		set(Val{T: resT, S: ref})
	case "(*container/list.List).Len":
		e.checkNonNil(st, args[0].S, "list", cc.Pos())
		v := Val{T: resT, S: e.sc.define("listlen", e.sc.idx(), getLen(args[0].S))}
		e.assume(st, and(e.le(z, v.S), e.le(v.S, e.sc.idxLit(maxLen))))
		set(v)
	case "(*container/list.List).PushFront", "(*container/list.List).PushBack":
		e.checkNonNil(st, args[0].S, "list", cc.Pos())
		ref := e.allocRef(st)
		e.memSet(st, valK, valS, fmt.Sprintf("(store %s %s %s)", e.memGet(st, valK, valS), ref, args[1].S))
		e.memSet(st, ownK, ownS, fmt.Sprintf("(store %s %s %s)", e.memGet(st, ownK, ownS), ref, args[0].S))
		cur := getLen(args[0].S)
		e.assume(st, and(e.le(z, cur), e.le(cur, e.sc.idxLit(maxLen))))
		setLen(args[0].S, e.add(cur, one))
		set(Val{T: resT, S: ref})
	case "(*container/list.List).Back", "(*container/list.List).Front":
		e.checkNonNil(st, args[0].S, "list", cc.Pos())
		r := e.freshVal(st, "listelem", resT)
		cur := getLen(args[0].S)
		// nil iff the list is empty; otherwise an element of this list
		e.assume(st, eq(eq(r.S, "0"), not(e.lt(z, cur))))
		e.assume(st, imp(not(eq(r.S, "0")), eq(fmt.Sprintf("(select %s %s)", e.memGet(st, ownK, ownS), r.S), args[0].S)))
		set(r)
	case "(*container/list.List).MoveToFront":
		e.checkNonNil(st, args[0].S, "list", cc.Pos())
	case "(*container/list.List).Remove":
		e.checkNonNil(st, args[0].S, "list", cc.Pos())
		e.checkNonNil(st, args[1].S, "element", cc.Pos())
		own := fmt.Sprintf("(select %s %s)", e.memGet(st, ownK, ownS), args[1].S)
		mine := e.sc.define("listmine", "Bool", eq(own, args[0].S))
		cur := getLen(args[0].S)
		setLen(args[0].S, ite(mine, e.sub(cur, one), cur))
		e.memSet(st, ownK, ownS, fmt.Sprintf("(store %s %s %s)", e.memGet(st, ownK, ownS), args[1].S, ite(mine, "0", own)))
		set(Val{T: resT, S: e.sc.define("listval", "Iface", fmt.Sprintf("(select %s %s)", e.memGet(st, valK, valS), args[1].S))})
	default:
		return false
	}
	return true
}
