package main

// Symbolic executor over go/ssa with state merging at joins, loop cutting by
// invariants (or complete unrolling), call-by-contract, and panic obligations.

import (
	"fmt"
	"go/token"
	"go/types"
	"sort"
	"strings"

	"golang.org/x/tools/go/ssa"
)

type addrKind int

const (
	AHeap  addrKind = iota // field of a heap struct object: mem[Key] : Array Int fieldSort, indexed by Ref
	ACell                  // boxed cell: mem[Key] : Array Int sort, indexed by Ref
	AElem                  // slice element: mem[Key] : Array Int (Array IDX E), Ref = base, Idx = absolute index
	ALocal                 // non-escaping local / global: mem[Key] holds the value itself
)

type step struct {
	isIdx bool
	idx   string     // index term (isIdx)
	field int        // field number (!isIdx)
	st    types.Type // the struct / array type being projected
}

type Addr struct {
	Kind  addrKind
	Key   string
	Ref   string
	Idx   string
	Steps []step
	Root  types.Type // type of the root value stored in mem (before steps)
	T     types.Type // pointee type (after steps)
}

type Val struct {
	T    types.Type
	S    string
	A    *Addr
	Tup  []Val
	Fn   *ssa.Function
	Bind []Val
}

type deferred struct {
	call *ssa.CallCommon
	args []Val
	fn   Val
}

type State struct {
	pc     string
	vals   map[ssa.Value]Val
	mem    map[string]string
	nonnil map[string]bool
	defers []deferred
	dead   bool
}

func (st *State) clone() *State {
	n := &State{pc: st.pc, vals: make(map[ssa.Value]Val, len(st.vals)), mem: make(map[string]string, len(st.mem)), nonnil: make(map[string]bool, len(st.nonnil))}
	for k, v := range st.vals {
		n.vals[k] = v
	}
	for k, v := range st.mem {
		n.mem[k] = v
	}
	for k, v := range st.nonnil {
		n.nonnil[k] = v
	}
	n.defers = append([]deferred(nil), st.defers...)
	return n
}

type exitKind int

const (
	exitReturn exitKind = iota
	exitSoft
)

type Exit struct {
	kind    exitKind
	st      *State
	results []Val
	pv      string // panic value (Iface term) for soft exits
}

type Obligation struct {
	Name     string
	Kind     string
	Func     string
	Pos      string
	Props    []string // property tags
	Prefix   int      // number of script lines that precede the goal
	Extra    []string // lines local to this obligation (skolem constants, instances at them)
	Goal     string   // formula that must be valid under pc
	PC       string
	Script   *Script
	Expect   string // "unsat" normally; "sat" for covers/canaries
	Desc     string
	ReplayFn string
	Inputs   []inputVar
	Site     bool // a reachability cover of a clause's application site: first solver stage only
	Group    string // site covers of one clause: the clause is vacuous only if every site of it is unreachable
}

type inputVar struct {
	Name string // Go-level name (param / field path)
	Term string // SMT term to evaluate in the model
	Type string
}

type loopInfo struct {
	header  *ssa.BasicBlock
	body    map[*ssa.BasicBlock]bool
	ordinal int
	unroll  int // >0: complete unrolling with unwinding assertion
	parent  *loopInfo
}

// Exec verifies one function.
type Exec struct {
	loopBody map[*ssa.BasicBlock]bool // body of the loop whose head is being havocked (nil: a call)
	beforeHits map[int]int // before clause index -> number of calls it applied to
	pruned     int         // branches dropped in a variant run (infeasible under the variant's assumption)
	plan       *replayPlan // how to rebuild the function's inputs from a model (replay.go)
	siteCovered map[string]bool
	siteCovers  []*Obligation // reachability covers of the call sites that before-clauses talk about
	chanHits map[string]int // before_send / assume_recv clause -> number of communications it applied to
	atReturnHits map[int]int // at_return clause index -> number of returns it was evaluated at
	callExcept []string // the same for the call being havocked for
	loopExcept []string // struct types untouched by the "write everything" calls of the loop being cut
	keepTypes []string // preserves_types of the callee being havocked for
	eng      *Engine
	fn       *ssa.Function
	fc       *FuncContract
	sc       *Script
	mode     Mode
	obls     []*Obligation
	initMem  map[string]string
	memSort  map[string]string
	entry    *State
	params   map[string]Val
	exits    []Exit
	oblNames map[string]int
	depth    int
	notes    []string // out-of-subset notes
	ghostSP  int
	libUsed  map[string]bool
	curFn    *ssa.Function // innermost function being executed (inlining)
	curInstr ssa.Instruction
	propsDef []string
	inputs   []inputVar
	recvDepth int
	recoverVal string
	recovered  bool
	loopHeads  map[int]map[string]loopHeadMem
	loopHeadSt map[int]*State
	backFrom   *ssa.BasicBlock
	tmCache    *tmInfo
	ghostTypes map[string]types.Type
	rawGhost   map[string]bool
	sct        scenarioT
}

func (e *Exec) note(format string, a ...interface{}) {
	m := fmt.Sprintf(format, a...)
	for _, n := range e.notes {
		if n == m {
			return
		}
	}
	e.notes = append(e.notes, m)
}

// ---------- memory ----------

func (e *Exec) memGet(st *State, key, sort string) string {
	if t, ok := st.mem[key]; ok {
		return t
	}
	t, ok := e.initMem[key]
	if !ok {
		t = e.sc.fresh("m0."+key, sort)
		e.initMem[key] = t
		e.memSort[key] = sort
	}
	if st.mem["*all"] != "" && key != "top" && !strings.HasPrefix(key, "L|") && !strings.HasPrefix(key, "IT|") && !strings.HasPrefix(key, "ghost|") {
		// everything was havocked before this key was first used on this path
		n := e.sc.fresh("hv."+key, sort)
		st.mem[key] = n
		return n
	}
	return t
}

func (e *Exec) memSet(st *State, key, sort, term string) {
	if _, ok := e.memSort[key]; !ok {
		e.memGet(st, key, sort)
	}
	st.mem[key] = e.sc.define("m."+key, sort, term)
	if key != "top" {
		e.touch(st, key)
	}
}

// touch records the allocation counter at the last write of a memory key: every
// reference stored under that key is below it (refBound).
func (e *Exec) touch(st *State, key string) {
	if strings.HasPrefix(key, "tb|") || strings.HasPrefix(key, "ghost|") || key == "*all" {
		return
	}
	st.mem["tb|"+key] = e.top(st)
}

func (e *Exec) refBound(st *State, key string) string {
	if t, ok := st.mem["tb|"+key]; ok {
		return t
	}
	if _, ok := st.mem[key]; ok {
		return e.top(st)
	}
	// never written on this path: references are those of the entry state
	if e.entry != nil {
		return e.top(e.entry)
	}
	return e.top(st)
}

func (e *Exec) top(st *State) string { return e.memGet(st, "top", "Int") }

func (e *Exec) allocRef(st *State) string {
	t := e.top(st)
	r := e.sc.define("ref", "Int", t)
	e.memSet(st, "top", "Int", fmt.Sprintf("(+ %s 1)", t))
	st.nonnil[r] = true
	// top is always positive
	return r
}

func (e *Exec) heapKey(structT types.Type, field int) (string, string) {
	u := structT.Underlying().(*types.Struct)
	f := u.Field(field)
	return "H|" + structKey(structT) + "|" + f.Name(), fmt.Sprintf("(Array Int %s)", e.sc.sortOf(f.Type()))
}

func (e *Exec) cellKey(t types.Type) (string, string) {
	// an array addressed through a pointer lives in the element memory, so that
	// slicing it (u[:]) yields a slice that truly aliases the array
	if arr, ok := t.Underlying().(*types.Array); ok {
		return e.elemKey(arr.Elem())
	}
	srt := e.sc.sortOf(t)
	return "M|" + sortTag(srt), fmt.Sprintf("(Array Int %s)", srt)
}

func (e *Exec) elemKey(elem types.Type) (string, string) {
	srt := e.sc.sortOf(elem)
	return "A|" + sortTag(srt), fmt.Sprintf("(Array Int (Array %s %s))", e.sc.idx(), srt)
}

// rootLoad loads the root value of an address.
func (e *Exec) rootLoad(st *State, a *Addr) string {
	switch a.Kind {
	case AHeap, ACell:
		return fmt.Sprintf("(select %s %s)", e.memGet(st, a.Key, fmt.Sprintf("(Array Int %s)", e.sc.sortOf(a.Root))), a.Ref)
	case AElem:
		return fmt.Sprintf("(select (select %s %s) %s)", e.memGet(st, a.Key, fmt.Sprintf("(Array Int (Array %s %s))", e.sc.idx(), e.sc.sortOf(a.Root))), a.Ref, a.Idx)
	case ALocal:
		return e.memGet(st, a.Key, e.sc.sortOf(a.Root))
	}
	panic("bad addr")
}

func (e *Exec) rootStore(st *State, a *Addr, v string) {
	switch a.Kind {
	case AHeap, ACell:
		srt := fmt.Sprintf("(Array Int %s)", e.sc.sortOf(a.Root))
		m := e.memGet(st, a.Key, srt)
		e.memSet(st, a.Key, srt, fmt.Sprintf("(store %s %s %s)", m, a.Ref, v))
	case AElem:
		srt := fmt.Sprintf("(Array Int (Array %s %s))", e.sc.idx(), e.sc.sortOf(a.Root))
		m := e.memGet(st, a.Key, srt)
		e.memSet(st, a.Key, srt, fmt.Sprintf("(store %s %s (store (select %s %s) %s %s))", m, a.Ref, m, a.Ref, a.Idx, v))
	case ALocal:
		srt := e.sc.sortOf(a.Root)
		e.memGet(st, a.Key, srt)
		e.memSet(st, a.Key, srt, v)
	}
}

func (e *Exec) project(v string, steps []step) string {
	for _, s := range steps {
		if s.isIdx {
			v = fmt.Sprintf("(select %s %s)", v, s.idx)
		} else {
			u := s.st.Underlying().(*types.Struct)
			e.sc.sortOf(s.st)
			v = fmt.Sprintf("(%s %s)", fieldSel(structKey(s.st), s.field, u.Field(s.field).Name()), v)
		}
	}
	return v
}

func (e *Exec) updateAt(root string, steps []step, nv string) string {
	if len(steps) == 0 {
		return nv
	}
	s := steps[0]
	if s.isIdx {
		inner := e.updateAt(fmt.Sprintf("(select %s %s)", root, s.idx), steps[1:], nv)
		return fmt.Sprintf("(store %s %s %s)", root, s.idx, inner)
	}
	u := s.st.Underlying().(*types.Struct)
	key := structKey(s.st)
	e.sc.sortOf(s.st)
	var parts []string
	for i := 0; i < u.NumFields(); i++ {
		cur := fmt.Sprintf("(%s %s)", fieldSel(key, i, u.Field(i).Name()), root)
		if i == s.field {
			parts = append(parts, e.updateAt(cur, steps[1:], nv))
		} else {
			parts = append(parts, cur)
		}
	}
	return fmt.Sprintf("(mk.%s %s)", sanitize(key), strings.Join(parts, " "))
}

// addrOf turns a pointer value into an address.
func (e *Exec) addrOf(st *State, p Val) *Addr {
	if p.A != nil {
		return p.A
	}
	pt, ok := p.T.Underlying().(*types.Pointer)
	if !ok {
		e.note("addrOf: non-pointer %s", p.T)
		return &Addr{Kind: ACell, Key: "M|Int", Ref: p.S, Root: types.Typ[types.Int], T: types.Typ[types.Int]}
	}
	el := pt.Elem()
	if _, ok := el.Underlying().(*types.Struct); ok {
		return nil // whole-struct access handled by caller
	}
	k, _ := e.cellKey(el)
	return &Addr{Kind: ACell, Key: k, Ref: p.S, Root: el, T: el}
}

func (e *Exec) load(st *State, p Val) Val {
	pt := p.T.Underlying().(*types.Pointer)
	el := pt.Elem()
	a := e.addrOf(st, p)
	if a == nil {
		// whole struct through a ref
		u := el.Underlying().(*types.Struct)
		var parts []string
		for i := 0; i < u.NumFields(); i++ {
			k, srt := e.heapKey(el, i)
			parts = append(parts, fmt.Sprintf("(select %s %s)", e.memGet(st, k, srt), p.S))
		}
		if len(parts) == 0 {
			parts = append(parts, "false")
		}
		e.sc.sortOf(el)
		return Val{T: el, S: e.sc.define("ld", e.sc.sortOf(el), fmt.Sprintf("(mk.%s %s)", sanitize(structKey(el)), strings.Join(parts, " ")))}
	}
	v := e.project(e.rootLoad(st, a), a.Steps)
	out := Val{T: el, S: e.sc.define("ld", e.sc.sortOf(el), v)}
	if a.Key == "G|net.IPv4zero" && len(a.Steps) == 0 && e.mode == ModeBV {
		// standard library fact: net.IPv4zero is the (non-nil) unspecified address 0.0.0.0
		e.eng.spec.need(e.sc, "ip_unspec")
		e.assume(st, fmt.Sprintf("(and (not (= (s-base %s) 0)) (ip_unspec %s))", out.S, out.S))
	}
	if needsWF(out.T, e.mode) {
		if f := e.wfB(st, out, e.refBound(st, a.Key)); f != "true" {
			e.assume(st, f)
		}
	}
	return out
}

func (e *Exec) store(st *State, p Val, v Val) {
	pt := p.T.Underlying().(*types.Pointer)
	el := pt.Elem()
	a := e.addrOf(st, p)
	if a == nil {
		u := el.Underlying().(*types.Struct)
		key := structKey(el)
		for i := 0; i < u.NumFields(); i++ {
			k, srt := e.heapKey(el, i)
			m := e.memGet(st, k, srt)
			e.memSet(st, k, srt, fmt.Sprintf("(store %s %s (%s %s))", m, p.S, fieldSel(key, i, u.Field(i).Name()), v.S))
		}
		return
	}
	if len(a.Steps) == 0 {
		e.rootStore(st, a, v.S)
		return
	}
	root := e.sc.define("root", e.sc.sortOf(a.Root), e.rootLoad(st, a))
	e.rootStore(st, a, e.updateAt(root, a.Steps, v.S))
}

// ---------- well-formedness (type invariants) ----------

func (e *Exec) le(a, b string) string {
	if e.mode == ModeBV {
		return fmt.Sprintf("(bvsle %s %s)", a, b)
	}
	return fmt.Sprintf("(<= %s %s)", a, b)
}
func (e *Exec) lt(a, b string) string {
	if e.mode == ModeBV {
		return fmt.Sprintf("(bvslt %s %s)", a, b)
	}
	return fmt.Sprintf("(< %s %s)", a, b)
}
func (e *Exec) add(a, b string) string {
	if e.mode == ModeBV {
		return fmt.Sprintf("(bvadd %s %s)", a, b)
	}
	return fmt.Sprintf("(+ %s %s)", a, b)
}
func (e *Exec) sub(a, b string) string {
	if e.mode == ModeBV {
		return fmt.Sprintf("(bvsub %s %s)", a, b)
	}
	return fmt.Sprintf("(- %s %s)", a, b)
}

const maxLen = int64(1) << 40

// wf returns the type invariant of a value (shallow).
func (e *Exec) wf(st *State, v Val) string {
	return e.wfB(st, v, e.top(st))
}

// wfB: type invariant with an explicit bound on references (the allocation
// counter at the time the containing memory was last written).
func (e *Exec) wfB(st *State, v Val, bound string) string {
	t := types.Unalias(v.T)
	if v.A != nil || v.Tup != nil || v.Fn != nil {
		return "true"
	}
	switch u := t.Underlying().(type) {
	case *types.Basic:
		if w, signed, ok := intWidth(u); ok && e.mode == ModeInt {
			lo, hi := intRange(w, signed)
			return fmt.Sprintf("(and (<= %s %s) (<= %s %s))", lo, v.S, v.S, hi)
		}
		if isString(t) {
			z := e.sc.idxLit(0)
			return and(e.le(z, "(str-len "+v.S+")"), e.le("(str-len "+v.S+")", e.sc.idxLit(maxLen)), e.le(z, "(str-off "+v.S+")"), e.le("(str-off "+v.S+")", e.sc.idxLit(maxLen)))
		}
	case *types.Map:
		// maps of different (underlying) map types are different objects
		if !e.sc.funs["maptype"] {
			e.sc.funs["maptype"] = true
			e.sc.emit("(declare-fun maptype (Int) Int)")
		}
		tag := e.sc.typeTag(types.Unalias(u))
		return fmt.Sprintf("(and (<= 0 %s) (< %s %s) (=> (not (= %s 0)) (= (maptype %s) %d)))", v.S, v.S, bound, v.S, v.S, tag)
	case *types.Pointer, *types.Chan:
		return fmt.Sprintf("(and (<= 0 %s) (< %s %s))", v.S, v.S, bound)
	case *types.Slice:
		z := e.sc.idxLit(0)
		b, o, l, c := "(s-base "+v.S+")", "(s-off "+v.S+")", "(s-len "+v.S+")", "(s-cap "+v.S+")"
		return and(fmt.Sprintf("(<= 0 %s)", b), fmt.Sprintf("(< %s %s)", b, bound),
			e.le(z, l), e.le(l, c), e.le(c, e.sc.idxLit(maxLen)), e.le(z, o), e.le(o, e.sc.idxLit(maxLen)),
			fmt.Sprintf("(=> (= %s 0) (= %s %s))", b, c, z))
	case *types.Struct:
		var parts []string
		for i := 0; i < u.NumFields(); i++ {
			ft := u.Field(i).Type()
			if !needsWF(ft, e.mode) {
				continue
			}
			fv := Val{T: ft, S: fmt.Sprintf("(%s %s)", fieldSel(structKey(t), i, u.Field(i).Name()), v.S)}
			parts = append(parts, e.wfB(st, fv, bound))
		}
		return and(parts...)
	case *types.Interface:
		e.sc.typeTag(types.Typ[types.Int]) // declares ptrtag
		// a boxed pointer refers to an object allocated before the value was read
		return fmt.Sprintf("(and (<= 0 (i-tag %s)) (=> (= (i-tag %s) 0) (= (i-pay %s) 0)) (=> (ptrtag (i-tag %s)) (and (<= 0 (i-pay %s)) (< (i-pay %s) %s))))", v.S, v.S, v.S, v.S, v.S, v.S, bound)
	}
	return "true"
}

func needsWF(t types.Type, m Mode) bool {
	t = types.Unalias(t)
	switch u := t.Underlying().(type) {
	case *types.Basic:
		if isString(t) {
			return true
		}
		_, _, ok := intWidth(u)
		return ok && m == ModeInt
	case *types.Pointer, *types.Map, *types.Chan, *types.Slice, *types.Interface:
		return true
	case *types.Struct:
		for i := 0; i < u.NumFields(); i++ {
			if needsWF(u.Field(i).Type(), m) {
				return true
			}
		}
	}
	return false
}

func intRange(w int, signed bool) (string, string) {
	if signed {
		switch w {
		case 8:
			return "(- 128)", "127"
		case 16:
			return "(- 32768)", "32767"
		case 32:
			return "(- 2147483648)", "2147483647"
		}
		return "(- 9223372036854775808)", "9223372036854775807"
	}
	switch w {
	case 8:
		return "0", "255"
	case 16:
		return "0", "65535"
	case 32:
		return "0", "4294967295"
	}
	return "0", "18446744073709551615"
}

// wfBySort: type invariant of a value known only by its SMT sort.
func (e *Exec) wfBySort(st *State, term, srt string) string {
	switch srt {
	case "Slice":
		return e.wf(st, Val{T: types.NewSlice(types.Typ[types.Uint8]), S: term})
	case "Str":
		return e.wf(st, Val{T: types.Typ[types.String], S: term})
	case "Iface":
		return e.wf(st, Val{T: types.NewInterfaceType(nil, nil), S: term})
	}
	return "true"
}

func (e *Exec) assumeWF(st *State, v Val) {
	if !needsWF(v.T, e.mode) {
		return
	}
	f := e.wf(st, v)
	if f != "true" {
		e.assume(st, f)
	}
}

func (e *Exec) assume(st *State, f string) {
	if f == "true" {
		return
	}
	e.sc.assert(imp(st.pc, f))
}

// freshVal creates an unconstrained value of a Go type (with its type invariant).
func (e *Exec) freshVal(st *State, prefix string, t types.Type) Val {
	if tup, ok := t.(*types.Tuple); ok {
		var vs []Val
		for i := 0; i < tup.Len(); i++ {
			vs = append(vs, e.freshVal(st, fmt.Sprintf("%s.%d", prefix, i), tup.At(i).Type()))
		}
		return Val{T: t, Tup: vs}
	}
	v := Val{T: t, S: e.sc.fresh(prefix, e.sc.sortOf(t))}
	e.assumeWF(st, v)
	return v
}

// ---------- obligations ----------

func (e *Exec) srcText(pos token.Pos) string {
	return e.eng.srcAt(pos)
}

func (e *Exec) oblName(kind, label string) string {
	label = strings.Join(strings.Fields(label), "")
	if len(label) > 48 {
		label = label[:48]
	}
	base := fmt.Sprintf("%s#%s#%s", e.fn.String(), kind, label)
	n := e.oblNames[base]
	e.oblNames[base] = n + 1
	if n > 0 {
		base = fmt.Sprintf("%s@%d", base, n)
	}
	return base
}

// check emits an obligation "pc => goal" and then assumes goal on the path.
func (e *Exec) check(st *State, kind, label, goal string, pos token.Pos) {
	if goal == "true" || st.pc == "false" {
		return
	}
	if e.eng.curProp != "" && len(e.propsDef) > 0 && !hasProp(e.propsDef, e.eng.curProp) && specAssertKinds[kind] {
		// a specification-level assertion tagged for other properties: this run does not check it, so it
		// must not rely on it either (a run-time check is different: the path continues only if it held)
		return
	}
	sg, extra := e.sc.skolemize(goal)
	o := &Obligation{
		Name: e.oblName(kind, label), Kind: kind, Func: e.fn.String(), Pos: e.eng.posString(pos),
		Prefix: e.sc.mark(), Goal: sg, PC: st.pc, Script: e.sc, Expect: "unsat", Props: e.propsDef, Extra: extra,
	}
	e.obls = append(e.obls, o)
	st.pc = e.sc.define("pc", "Bool", and(st.pc, goal))
	if strings.Contains(goal, "(forall ((q.") {
		// the established fact as an instantiable assumption of the continuing path
		e.sc.assert(imp(st.pc, goal))
	}
}

var specAssertKinds = map[string]bool{"before": true, "before-send": true, "running": true}

// checkProps is like check but with explicit property tags and no path narrowing.
func (e *Exec) checkPost(st *State, kind, label, goal string, props []string, pos string) {
	if st.pc == "false" {
		return
	}
	goal, extra := e.sc.skolemize(goal)
	o := &Obligation{
		Name: e.oblName(kind, label), Kind: kind, Func: e.fn.String(), Pos: pos,
		Prefix: e.sc.mark(), Goal: goal, PC: st.pc, Script: e.sc, Expect: "unsat", Props: props, Extra: extra,
	}
	if len(props) == 0 {
		o.Props = e.propsDef
	}
	e.obls = append(e.obls, o)
}

func (e *Exec) checkNonNil(st *State, ref string, label string, pos token.Pos) {
	if st.nonnil[ref] {
		return
	}
	e.check(st, "nil", label, fmt.Sprintf("(not (= %s 0))", ref), pos)
	st.nonnil[ref] = true
}

// ---------- loops ----------

func findLoops(fn *ssa.Function) []*loopInfo {
	var loops []*loopInfo
	byHeader := map[*ssa.BasicBlock]*loopInfo{}
	for _, b := range fn.Blocks {
		for _, s := range b.Succs {
			if s.Dominates(b) {
				l := byHeader[s]
				if l == nil {
					l = &loopInfo{header: s, body: map[*ssa.BasicBlock]bool{s: true}}
					byHeader[s] = l
					loops = append(loops, l)
				}
				// body: nodes reaching b without passing through s
				var stack []*ssa.BasicBlock
				if !l.body[b] {
					l.body[b] = true
					stack = append(stack, b)
				}
				for len(stack) > 0 {
					x := stack[len(stack)-1]
					stack = stack[:len(stack)-1]
					for _, p := range x.Preds {
						if !l.body[p] {
							l.body[p] = true
							stack = append(stack, p)
						}
					}
				}
			}
		}
	}
	sort.Slice(loops, func(i, j int) bool { return loops[i].header.Index < loops[j].header.Index })
	for i, l := range loops {
		l.ordinal = i
	}
	// parents: smallest enclosing loop
	for _, l := range loops {
		for _, m := range loops {
			if m != l && m.body[l.header] && len(m.body) > len(l.body) {
				if l.parent == nil || len(m.body) < len(l.parent.body) {
					l.parent = m
				}
			}
		}
	}
	return loops
}

type vnode struct {
	b   *ssa.BasicBlock
	ctx string
}

type vedge struct {
	from vnode
	to   vnode
	st   *State
}

// run executes fn from the given state; exits are appended to e.exits (for the
// top-level function) or returned (inlined calls).
func (e *Exec) run(fn *ssa.Function, st0 *State, fc *FuncContract) []Exit {
	if len(fn.Blocks) == 0 {
		return nil
	}
	saveFn := e.curFn
	e.curFn = fn
	defer func() { e.curFn = saveFn }()

	loops := findLoops(fn)
	headerLoop := map[*ssa.BasicBlock]*loopInfo{}
	for _, l := range loops {
		headerLoop[l.header] = l
		if fc != nil {
			if lc := fc.Loops[l.ordinal]; lc != nil && lc.Unroll > 0 {
				l.unroll = lc.Unroll
			}
		}
	}
	innermost := func(b *ssa.BasicBlock) *loopInfo {
		var best *loopInfo
		for _, l := range loops {
			if l.body[b] && (best == nil || len(l.body) < len(best.body)) {
				best = l
			}
		}
		return best
	}
	// ctx: map loop ordinal -> iteration, encoded as "o:i,o:i"
	parseCtx := func(c string) map[int]int {
		m := map[int]int{}
		if c == "" {
			return m
		}
		for _, p := range strings.Split(c, ",") {
			var o, i int
			fmt.Sscanf(p, "%d:%d", &o, &i)
			m[o] = i
		}
		return m
	}
	fmtCtx := func(m map[int]int) string {
		var ks []int
		for k := range m {
			ks = append(ks, k)
		}
		sort.Ints(ks)
		var ps []string
		for _, k := range ks {
			ps = append(ps, fmt.Sprintf("%d:%d", k, m[k]))
		}
		return strings.Join(ps, ",")
	}
	succTarget := func(from vnode, s *ssa.BasicBlock) target {
		m := parseCtx(from.ctx)
		// drop exited loops
		for _, l := range loops {
			if l.body[from.b] && !l.body[s] {
				delete(m, l.ordinal)
			}
		}
		if l := headerLoop[s]; l != nil {
			if l.body[from.b] { // back edge
				if l.unroll == 0 {
					return target{back: l}
				}
				it := m[l.ordinal] + 1
				if it > l.unroll {
					return target{unwind: l}
				}
				m[l.ordinal] = it
				// inner unrolled loops restart
				for _, in := range loops {
					if in != l && l.body[in.header] && in.unroll > 0 && !in.body[s] {
						delete(m, in.ordinal)
					}
				}
			} else if l.unroll > 0 {
				m[l.ordinal] = 0
			}
		}
		return target{node: vnode{s, fmtCtx(m)}}
	}

	// build the virtual DAG and a topological order
	entry := vnode{fn.Blocks[0], ""}
	var order []vnode
	seen := map[vnode]int{}
	var dfs func(n vnode)
	dfs = func(n vnode) {
		seen[n] = 1
		for _, s := range n.b.Succs {
			t := succTarget(n, s)
			if t.back != nil || t.unwind != nil {
				continue
			}
			if seen[t.node] == 0 {
				dfs(t.node)
			}
		}
		seen[n] = 2
		order = append(order, n)
	}
	dfs(entry)
	for i, j := 0, len(order)-1; i < j; i, j = i+1, j-1 {
		order[i], order[j] = order[j], order[i]
	}
	if len(order) > 6000 {
		e.note("%s: virtual CFG too large (%d nodes)", fn.String(), len(order))
		return nil
	}

	incoming := map[vnode][]vedge{}
	var exits []Exit
	incoming[entry] = []vedge{{st: st0}}

	for _, n := range order {
		ins := incoming[n]
		delete(incoming, n)
		if len(ins) == 0 {
			continue
		}
		b := n.b
		// evaluate phis per incoming edge, then merge
		var sts []*State
		for _, in := range ins {
			s := in.st
			if in.from.b != nil {
				e.evalPhis(b, in.from.b, s)
			}
			sts = append(sts, s)
		}
		l := headerLoop[b]
		st := e.merge(sts, fmt.Sprintf("%s.b%d", fn.Name(), b.Index))
		if st.pc == "false" {
			continue
		}
		if l != nil && l.unroll == 0 {
			e.cutLoopHead(fn, fc, l, st)
		}
		_ = innermost
		// instructions
		alive := true
		for _, ins := range b.Instrs {
			if _, ok := ins.(*ssa.Phi); ok {
				continue
			}
			e.curInstr = ins
			cont, ex := e.step(fn, fc, st, ins)
			exits = append(exits, ex...)
			if !cont {
				alive = false
				break
			}
		}
		if !alive {
			continue
		}
		// terminator
		last := b.Instrs[len(b.Instrs)-1]
		switch t := last.(type) {
		case *ssa.If:
			c := e.val(st, t.Cond).S
			for i, s := range b.Succs {
				ns := st.clone()
				if i == 0 {
					ns.pc = e.sc.define("pc", "Bool", and(st.pc, c))
				} else {
					ns.pc = e.sc.define("pc", "Bool", and(st.pc, not(c)))
				}
				if e.sct.assume != "" && fn == e.fn && !e.feasible(ns.pc) {
					// a variant run: the branch contradicts the variant's assumption - its code is not
					// part of this run (it is part of the variant it belongs to; the variants cover all inputs)
					continue
				}
				e.route(fn, fc, n, s, ns, succTarget(n, s), incoming)
			}
		case *ssa.Jump:
			s := b.Succs[0]
			e.route(fn, fc, n, s, st, succTarget(n, s), incoming)
		}
	}
	return exits
}

// feasible: can the path condition hold? Asked of the solver (2 s) in variant runs only, to drop the
// arms of a switch that belong to other variants. "unsat" is the only answer that prunes.
func (e *Exec) feasible(pc string) bool {
	if pc == "false" {
		return false
	}
	var b strings.Builder
	for _, l := range e.sc.lines {
		b.WriteString(l)
		b.WriteByte('\n')
	}
	fmt.Fprintf(&b, "(assert %s)\n(check-sat)\n", pc)
	r := runSolver(solvers[0], b.String(), 2)
	if r.Status == "unsat" {
		e.pruned++
		return false
	}
	return true
}

type target struct {
	node   vnode
	back   *loopInfo // cut back edge
	unwind *loopInfo // unwinding assertion
}

func (e *Exec) route(fn *ssa.Function, fc *FuncContract, from vnode, s *ssa.BasicBlock, st *State, t target, incoming map[vnode][]vedge) {
	if st.pc == "false" {
		return
	}
	if t.back != nil {
		e.evalPhis(s, from.b, st)
		e.backFrom = from.b
		e.checkLoopBack(fn, fc, t.back, st)
		return
	}
	if t.unwind != nil {
		e.checkPost(st, "unwind", fmt.Sprintf("loop%d", t.unwind.ordinal), "false", nil, e.eng.posString(s.Instrs[0].Pos()))
		return
	}
	// exit assertions of cut loops left by this edge
	if fc != nil && e.curFn == fn {
		for _, l := range findLoopsCached(fn) {
			if l.body[from.b] && !l.body[s] {
				if lc := fc.Loops[l.ordinal]; lc != nil && lc.Unroll == 0 {
					for i, cl := range lc.Exits {
						c := e.invCtx(fn, l, st)
						c.where = fmt.Sprintf("%s:%d", cl.File, cl.Line)
						tm, err := c.evalBool(cl.Expr)
						if err != nil {
							e.note("CONTRACT-ERROR exit: %v", err)
							continue
						}
						e.check(st, "loop-exit", fmt.Sprintf("loop%d.%d", l.ordinal, i), tm, s.Instrs[0].Pos())
					}
				}
			}
		}
	}
	incoming[t.node] = append(incoming[t.node], vedge{from: from, to: t.node, st: st})
}

var loopCache = map[*ssa.Function][]*loopInfo{}

func findLoopsCached(fn *ssa.Function) []*loopInfo {
	if l, ok := loopCache[fn]; ok {
		return l
	}
	l := findLoops(fn)
	loopCache[fn] = l
	return l
}

func (e *Exec) evalPhis(b, pred *ssa.BasicBlock, st *State) {
	idx := -1
	for i, p := range b.Preds {
		if p == pred {
			idx = i
			break
		}
	}
	if idx < 0 {
		return
	}
	var phis []*ssa.Phi
	var nv []Val
	for _, ins := range b.Instrs {
		phi, ok := ins.(*ssa.Phi)
		if !ok {
			break
		}
		phis = append(phis, phi)
		nv = append(nv, e.val(st, phi.Edges[idx]))
	}
	for i, phi := range phis {
		v := nv[i]
		v.T = phi.Type()
		st.vals[phi] = v
	}
}

// merge joins states; values are ite-merged on the path conditions.
func (e *Exec) merge(sts []*State, label string) *State {
	if len(sts) == 1 {
		return sts[0]
	}
	var live []*State
	for _, s := range sts {
		if s.pc != "false" {
			live = append(live, s)
		}
	}
	if len(live) == 0 {
		return sts[0]
	}
	if len(live) == 1 {
		return live[0]
	}
	out := &State{vals: map[ssa.Value]Val{}, mem: map[string]string{}, nonnil: map[string]bool{}}
	var pcs []string
	for _, s := range live {
		pcs = append(pcs, s.pc)
	}
	out.pc = e.sc.define("pc."+label, "Bool", or(pcs...))
	// vals
	for k, v0 := range live[0].vals {
		same := true
		ok := true
		for _, s := range live[1:] {
			v, has := s.vals[k]
			if !has {
				ok = false
				break
			}
			if !valSame(v, v0) {
				same = false
			}
		}
		if !ok {
			continue
		}
		if same {
			out.vals[k] = v0
			continue
		}
		if v0.A != nil || v0.Tup != nil || v0.Fn != nil {
			mv, ok := e.mergeComplex(live, k)
			if ok {
				out.vals[k] = mv
			}
			continue
		}
		term := live[len(live)-1].vals[k].S
		for i := len(live) - 2; i >= 0; i-- {
			term = ite(live[i].pc, live[i].vals[k].S, term)
		}
		out.vals[k] = Val{T: v0.T, S: e.sc.define("phi", e.sc.sortOf(v0.T), term)}
	}
	// mem
	keys := map[string]bool{}
	for _, s := range live {
		for k := range s.mem {
			keys[k] = true
		}
	}
	for _, k := range sortedKeys(keys) {
		get := func(s *State) string {
			if t, ok := s.mem[k]; ok {
				return t
			}
			if k == "*all" {
				return ""
			}
			if strings.HasPrefix(k, "tb|") {
				return e.refBound(s, strings.TrimPrefix(k, "tb|"))
			}
			return e.memGet(s, k, e.memSort[k])
		}
		t0 := get(live[0])
		same := true
		for _, s := range live[1:] {
			if get(s) != t0 {
				same = false
			}
		}
		if same {
			out.mem[k] = t0
			continue
		}
		term := get(live[len(live)-1])
		for i := len(live) - 2; i >= 0; i-- {
			term = ite(live[i].pc, get(live[i]), term)
		}
		srt := e.memSort[k]
		if strings.HasPrefix(k, "tb|") {
			srt = "Int"
		}
		out.mem[k] = e.sc.define("m."+k, srt, term)
	}
	for k := range live[0].nonnil {
		all := true
		for _, s := range live[1:] {
			if !s.nonnil[k] {
				all = false
				break
			}
		}
		if all {
			out.nonnil[k] = true
		}
	}
	// defers: must agree
	out.defers = live[0].defers
	for _, s := range live[1:] {
		if len(s.defers) != len(out.defers) {
			e.note("%s: conditional defer (unsupported), keeping the shorter list", label)
			if len(s.defers) < len(out.defers) {
				out.defers = s.defers
			}
		}
	}
	return out
}

func (e *Exec) mergeComplex(live []*State, k ssa.Value) (Val, bool) {
	v0 := live[0].vals[k]
	if v0.Tup != nil {
		out := Val{T: v0.T}
		for i := range v0.Tup {
			term := ""
			for j := len(live) - 1; j >= 0; j-- {
				vj := live[j].vals[k]
				if len(vj.Tup) != len(v0.Tup) || vj.Tup[i].A != nil || vj.Tup[i].Tup != nil {
					return Val{}, false
				}
				if term == "" {
					term = vj.Tup[i].S
				} else {
					term = ite(live[j].pc, vj.Tup[i].S, term)
				}
			}
			out.Tup = append(out.Tup, Val{T: v0.Tup[i].T, S: e.sc.define("phi", e.sc.sortOf(v0.Tup[i].T), term)})
		}
		return out, true
	}
	if v0.A != nil {
		// addresses that differ only in Ref / Idx can be merged
		a0 := v0.A
		na := *a0
		ref, idx := "", ""
		for j := len(live) - 1; j >= 0; j-- {
			aj := live[j].vals[k].A
			if aj == nil || aj.Kind != a0.Kind || aj.Key != a0.Key || len(aj.Steps) != len(a0.Steps) {
				return Val{}, false
			}
			for si := range aj.Steps {
				if aj.Steps[si] != a0.Steps[si] {
					return Val{}, false
				}
			}
			if ref == "" {
				ref, idx = aj.Ref, aj.Idx
			} else {
				ref = ite(live[j].pc, aj.Ref, ref)
				idx = ite(live[j].pc, aj.Idx, idx)
			}
		}
		na.Ref, na.Idx = ref, idx
		return Val{T: v0.T, A: &na}, true
	}
	return Val{}, false
}

func valSame(a, b Val) bool {
	if a.A != nil || b.A != nil {
		if a.A == nil || b.A == nil {
			return false
		}
		if a.A.Kind != b.A.Kind || a.A.Key != b.A.Key || a.A.Ref != b.A.Ref || a.A.Idx != b.A.Idx || len(a.A.Steps) != len(b.A.Steps) {
			return false
		}
		for i := range a.A.Steps {
			if a.A.Steps[i] != b.A.Steps[i] {
				return false
			}
		}
		return true
	}
	if a.Tup != nil || b.Tup != nil {
		if len(a.Tup) != len(b.Tup) {
			return false
		}
		for i := range a.Tup {
			if !valSame(a.Tup[i], b.Tup[i]) {
				return false
			}
		}
		return true
	}
	if a.Fn != b.Fn {
		return false
	}
	return a.S == b.S
}
