package main

import (
	"encoding/json"
	"flag"
	"fmt"
	"go/types"
	"os"
	"path/filepath"
	"runtime"
	"sort"
	"strconv"
	"strings"
	"time"

	"golang.org/x/tools/go/ssa"
)

type checkTarget struct {
	fn    *ssa.Function
	fc    *FuncContract
	props []string
}

type KnownFinding struct {
	Property   string `json:"property"`
	Obligation string `json:"obligation"`
	What       string `json:"what"`
	Witness    string `json:"witness,omitempty"`
	Status     string `json:"status"` // "open" | "fixed"
	Commit     string `json:"commit,omitempty"`
}

type Baseline struct {
	Expected  map[string][]string          `json:"expected"`  // property -> obligation names discharged on the unchanged tree
	Undecided map[string]map[string]string `json:"undecided"` // property -> obligation -> reason (tool limit; never claimed)
}

func usage() {
	fmt.Fprintln(os.Stderr, "usage: govc check -p Cxx [-tier quick|thorough] | govc dump -f <key> [-pkg path] | govc list | govc replay <file>")
	os.Exit(2)
}

func main() {
	if len(os.Args) < 2 {
		usage()
	}
	switch os.Args[1] {
	case "check":
		os.Exit(cmdCheck(os.Args[2:]))
	case "dump":
		os.Exit(cmdDump(os.Args[2:]))
	case "list":
		os.Exit(cmdList(os.Args[2:]))
	case "replay":
		os.Exit(cmdReplay(os.Args[2:]))
	case "sweepall":
		os.Exit(cmdSweepAll(os.Args[2:]))
	case "selftest":
		os.Exit(cmdSelftest(os.Args[2:]))
	default:
		usage()
	}
}

func verifDir() string {
	if d := os.Getenv("GOVC_VERIF"); d != "" {
		return d
	}
	exe, err := os.Executable()
	if err == nil {
		d := filepath.Dir(filepath.Dir(exe))
		if _, err := os.Stat(filepath.Join(d, "spec")); err == nil {
			return d
		}
	}
	return "/verif"
}

func repoDir() string {
	if d := os.Getenv("GOVC_REPO"); d != "" {
		return d
	}
	return "/repo"
}

// sweepList reads /verif/sweep/<prop>.txt: lines "<pkgpath>::<key>".
func sweepList(vd, prop string) []string {
	data, err := os.ReadFile(filepath.Join(vd, "sweep", prop+".txt"))
	if err != nil {
		return nil
	}
	var out []string
	for _, l := range strings.Split(string(data), "\n") {
		l = strings.TrimSpace(l)
		if l == "" || strings.HasPrefix(l, "#") {
			continue
		}
		out = append(out, l)
	}
	return out
}

func hasProp(ps []string, p string) bool {
	for _, x := range ps {
		if x == p {
			return true
		}
	}
	return false
}

func (eng *Engine) targetsFor(prop string) ([]checkTarget, []string) {
	var out []checkTarget
	var missing []string
	seen := map[*ssa.Function]bool{}
	keys := sortedKeys(eng.contracts.Funcs)
	for _, full := range keys {
		fc := eng.contracts.Funcs[full]
		if !(hasProp(fc.Props, prop) || fc.clauseMentions(prop)) || fc.Trusted {
			continue
		}
		if strings.HasPrefix(fc.Key, "(") && strings.Contains(fc.Key, "iface:") {
			continue
		}
		i := strings.Index(full, "::")
		fn := eng.lookupFunc(full[:i], fc.Key)
		if fn == nil {
			if _, isIface := fc.Flags["interface"]; isIface {
				continue
			}
			missing = append(missing, full)
			continue
		}
		if len(fn.Blocks) == 0 {
			continue
		}
		seen[fn] = true
		out = append(out, checkTarget{fn: fn, fc: fc, props: fc.Props})
	}
	for _, full := range sweepList(eng.verifDir, prop) {
		i := strings.Index(full, "::")
		if i < 0 {
			continue
		}
		fn := eng.lookupFunc(full[:i], full[i+2:])
		if fn == nil {
			missing = append(missing, full)
			continue
		}
		if seen[fn] {
			continue
		}
		seen[fn] = true
		fc := eng.contracts.Funcs[full]
		out = append(out, checkTarget{fn: fn, fc: fc, props: []string{prop}})
	}
	return out, missing
}

type scenarioT struct {
	types  map[string]types.Type
	name   string
	assume string // extra assumption (value variant)
	cover  bool   // the variants-cover-the-precondition obligation only
}

// scenarios expands the type scenarios and value variants of a contract.
func (eng *Engine) scenarios(t checkTarget) []scenarioT {
	if t.fc == nil {
		return []scenarioT{{}}
	}
	var out []scenarioT
	if len(t.fc.Scenario) > 0 {
		// single scenario parameter supported
		for p, ts := range t.fc.Scenario {
			for _, tn := range ts {
				c := &specCtx{pkg: t.fn.Pkg.Pkg}
				x, err := parseTypeExpr(tn)
				if err != nil {
					// never skip silently: a function without scenarios would generate no obligations
					eng.scenarioErrList = append(eng.scenarioErrList, fmt.Sprintf("%s:%d: scenario type %q does not parse", t.fc.File, t.fc.Line, tn))
					continue
				}
				ty := c.lookupType(x)
				if ty == nil {
					eng.scenarioErrList = append(eng.scenarioErrList, fmt.Sprintf("%s:%d: scenario type %q is unknown", t.fc.File, t.fc.Line, tn))
					continue
				}
				out = append(out, scenarioT{types: map[string]types.Type{p: ty}, name: types.TypeString(ty, func(p *types.Package) string { return "" })})
			}
			break
		}
		return out
	}
	if vs := t.fc.Lists["variant"]; len(vs) > 0 {
		var all []string
		for _, v := range vs {
			i := strings.Index(v.Expr, ":")
			if i < 0 {
				continue
			}
			out = append(out, scenarioT{name: strings.TrimSpace(v.Expr[:i]), assume: strings.TrimSpace(v.Expr[i+1:])})
			all = append(all, "("+strings.TrimSpace(v.Expr[i+1:])+")")
		}
		out = append(out, scenarioT{name: "variants-cover", assume: strings.Join(all, " || "), cover: true})
		return out
	}
	return []scenarioT{{}}
}

func cmdCheck(args []string) int {
	fs := flag.NewFlagSet("check", flag.ExitOnError)
	prop := fs.String("p", "", "property id")
	tier := fs.String("tier", "", "quick|thorough")
	dump := fs.String("dump", "", "directory to dump SMT scripts")
	only := fs.String("only", "", "restrict to functions whose name contains this")
	verbose := fs.Bool("v", false, "verbose")
	debug := fs.Bool("debug", false, "engine debug (panic on internal errors)")
	noEvidence := fs.Bool("no-evidence", false, "do not write the evidence file")
	fs.Parse(args)
	if *prop == "" {
		usage()
	}
	if *tier == "" {
		*tier = os.Getenv("VERIF_TIER")
		if *tier == "" {
			*tier = "quick"
		}
	}
	seed := 0
	if s := os.Getenv("VERIF_SEED"); s != "" {
		seed, _ = strconv.Atoi(s)
	}
	start := time.Now()
	vd := verifDir()
	eng, err := loadEngine(repoDir(), vd)
	if err != nil {
		fmt.Printf("ERROR: cannot load %s: %v\n", repoDir(), err)
		// a tree that does not build cannot be verified: treated as a broken check input, not a violation
		return 2
	}
	eng.debug = *debug
	eng.curProp = *prop
	installHooks(eng, *prop)
	loadT := time.Since(start).Seconds()

	targets, missing := eng.targetsFor(*prop)
	var results []*FuncResult
	for _, t := range targets {
		if *only != "" && !strings.Contains(t.fn.String(), *only) {
			continue
		}
		scs := eng.scenarios(t)
		for _, sc := range scs {
			results = append(results, eng.verifyFunc(t.fn, t.fc, t.props, sc))
		}
	}
	var obls, covers []*Obligation
	engineErrs := append([]string{}, eng.scenarioErrList...)
	for _, r := range results {
		if r.Err != nil {
			engineErrs = append(engineErrs, r.Err.Error())
			continue
		}
		for _, o := range r.Obls {
			if hasProp(o.Props, *prop) {
				obls = append(obls, o)
			}
		}
		covers = append(covers, r.Covers...)
	}
	lemmaObls, lerr := eng.lemmaObligations(*prop)
	if lerr != nil {
		engineErrs = append(engineErrs, lerr.Error())
	}
	obls = append(obls, lemmaObls...)
	obls = append(obls, eng.structuralObligations(*prop)...)
	canaries := eng.canaries(*prop, results)

	if *dump != "" {
		os.MkdirAll(*dump, 0755)
	}
	par := runtime.NumCPU()
	all := append(append(append([]*Obligation(nil), obls...), covers...), canaries...)
	res := solveAll(all, *tier, par, *dump)

	rep := newReport(eng, *prop, *tier, seed, vd)
	rep.loadS = loadT
	rep.missing = missing
	rep.engineErrs = engineErrs
	rep.results = results
	rep.classify(obls, covers, canaries, res, *verbose)
	if *only == "" {
		bres, _ := eng.runBounded(*prop)
		rep.bounded(bres)
	}
	rep.wall = time.Since(start).Seconds()
	if !*noEvidence {
		rep.writeEvidence()
	}
	return rep.exitCode()
}

func cmdList(args []string) int {
	vd := verifDir()
	eng, err := loadEngine(repoDir(), vd)
	if err != nil {
		fmt.Println("ERROR:", err)
		return 2
	}
	for _, k := range sortedKeys(eng.contracts.Funcs) {
		fc := eng.contracts.Funcs[k]
		fmt.Printf("%s props=%v trusted=%v\n", k, fc.Props, fc.Trusted)
	}
	return 0
}

func cmdDump(args []string) int {
	fs := flag.NewFlagSet("dump", flag.ExitOnError)
	key := fs.String("f", "", "function key")
	pkg := fs.String("pkg", "github.com/gocql/gocql", "package path")
	solve := fs.Bool("solve", true, "solve obligations")
	out := fs.String("o", "", "dump scripts into dir")
	fs.Parse(args)
	eng, err := loadEngine(repoDir(), verifDir())
	if err != nil {
		fmt.Println("ERROR:", err)
		return 2
	}
	eng.debug = true
	installHooks(eng, "")
	fn := eng.lookupFunc(*pkg, *key)
	if fn == nil {
		fmt.Println("no such function")
		return 2
	}
	fc := eng.contracts.Funcs[*pkg+"::"+*key]
	var props []string
	if fc != nil {
		props = fc.Props
	}
	t := checkTarget{fn: fn, fc: fc, props: props}
	for _, sc := range eng.scenarios(t) {
		r := eng.verifyFunc(fn, fc, props, sc)
		if r.Err != nil {
			fmt.Println("ERROR:", r.Err)
			return 2
		}
		for _, n := range r.Notes {
			fmt.Println("NOTE:", n)
		}
		fmt.Println("LIB:", r.LibUsed)
		if *out != "" {
			os.MkdirAll(*out, 0755)
		}
		var res map[*Obligation]SolveResult
		all := append(append([]*Obligation(nil), r.Obls...), r.Covers...)
		if *solve {
			res = solveAll(all, "quick", runtime.NumCPU(), *out)
		}
		for _, o := range all {
			s := res[o]
			fmt.Printf("%-8s %-10s %6.2fs %s  [%s]\n", s.Status, s.Solver, s.Seconds, o.Name, o.Pos)
			if s.Status == "sat" && o.Kind != "cover" {
				ks := sortedKeys(s.Model)
				for _, k := range ks {
					fmt.Printf("      %s = %s\n", k, s.Model[k])
				}
			}
			if s.Status == "error" {
				fmt.Println(firstLines(s.Output, 5))
			}
		}
	}
	return 0
}

func firstLines(s string, n int) string {
	ls := strings.Split(s, "\n")
	if len(ls) > n {
		ls = ls[:n]
	}
	return strings.Join(ls, "\n")
}

func writeJSON(path string, v interface{}) error {
	b, err := json.MarshalIndent(v, "", " ")
	if err != nil {
		return err
	}
	os.MkdirAll(filepath.Dir(path), 0755)
	return os.WriteFile(path, append(b, '\n'), 0644)
}

func readJSON(path string, v interface{}) error {
	b, err := os.ReadFile(path)
	if err != nil {
		return err
	}
	return json.Unmarshal(b, v)
}

func uniqSorted(xs []string) []string {
	m := map[string]bool{}
	for _, x := range xs {
		m[x] = true
	}
	var out []string
	for x := range m {
		out = append(out, x)
	}
	sort.Strings(out)
	return out
}
