package main

import (
	"bytes"
	"context"
	"fmt"
	"os"
	"os/exec"
	"path/filepath"
	"strings"
	"sync"
	"time"
)

type SolveResult struct {
	Status  string // unsat | sat | unknown | timeout | error
	Solver  string
	Seconds float64
	Output  string
	Model   map[string]string
	Agree   []string // thorough: solvers that agreed
}

type solverDef struct {
	name string
	bin  string
	args func(timeoutS int) []string
}

var solvers = []solverDef{
	{"z3-5.1.0", "z3-new", func(t int) []string { return []string{"-in", fmt.Sprintf("-T:%d", t)} }},
	{"z3-4.8.12", "z3", func(t int) []string { return []string{"-in", fmt.Sprintf("-T:%d", t)} }},
	{"cvc5-1.0.3", "cvc5", func(t int) []string {
		return []string{"--lang=smt2", fmt.Sprintf("--tlimit=%d", t*1000), "--produce-models"}
	}},
	// same solver, model-based quantifier instantiation only (decides some quantified
	// invariant steps on which E-matching diverges)
	{"z3-5.1.0/mbqi", "z3-new", func(t int) []string { return []string{"-in", fmt.Sprintf("-T:%d", t), "smt.ematching=false"} }},
}

func (o *Obligation) scriptText(withModel bool) string { return o.scriptTextG(withModel, false) }

// hasQuantLines: does the script assert quantified formulas (whose ground instances the engine
// has already added)?
func (o *Obligation) hasQuantLines() bool {
	for _, l := range o.Script.lines[:o.Prefix] {
		if strings.HasPrefix(l, "(assert") && strings.Contains(l, "(forall ((q.") {
			return true
		}
	}
	return false
}

// scriptTextG with ground=true leaves out the asserted formulas that still contain one of the
// engine's own quantifiers (fewer assumptions: an `unsat` answer is still a proof; `sat` means nothing).
func (o *Obligation) scriptTextG(withModel, ground bool) string {
	var b strings.Builder
	for _, l := range o.Script.lines[:o.Prefix] {
		if ground && strings.HasPrefix(l, "(assert") && strings.Contains(l, "(forall ((q.") {
			// keep the quantifier-free conjuncts of the assertion (weaker assumption)
			w, ok := weakenForalls(l, 1)
			if !ok {
				continue
			}
			l = w
		}
		b.WriteString(l)
		b.WriteByte('\n')
	}
	for _, l := range o.Extra {
		if ground && strings.HasPrefix(l, "(assert") && strings.Contains(l, "(forall ((q.") {
			w, ok := weakenForalls(l, 1)
			if !ok {
				continue
			}
			l = w
		}
		b.WriteString(l)
		b.WriteByte('\n')
	}
	if o.Kind == "cover" {
		// satisfiability of the assumptions so far (and of the path to the site, for a site cover)
		if o.PC != "" && o.PC != "true" {
			fmt.Fprintf(&b, "(assert %s)\n", o.PC)
		}
		b.WriteString("(check-sat)\n")
		return b.String()
	}
	if o.Kind != "lemma" {
		fmt.Fprintf(&b, "(assert (not (=> %s %s)))\n", o.PC, o.Goal)
	}
	b.WriteString("(check-sat)\n")
	if withModel && len(o.Inputs) > 0 {
		var ts []string
		for _, in := range o.Inputs {
			if in.Term != "" {
				ts = append(ts, in.Term)
			}
		}
		if len(ts) > 0 {
			fmt.Fprintf(&b, "(get-value (%s))\n", strings.Join(ts, " "))
		}
	}
	return b.String()
}

func runSolver(sd solverDef, script string, timeoutS int) SolveResult {
	return runSolverCtx(context.Background(), sd, script, timeoutS)
}

// runSolverCtx: the solver process is killed when parent is cancelled (a racer lost).
func runSolverCtx(parent context.Context, sd solverDef, script string, timeoutS int) SolveResult {
	ctx, cancel := context.WithTimeout(parent, time.Duration(timeoutS+2)*time.Second)
	defer cancel()
	start := time.Now()
	args := sd.args(timeoutS)
	cmd := exec.CommandContext(ctx, sd.bin, args...)
	if sd.bin == "cvc5" {
		// cvc5 wants produce-models before set-logic; our header has it as an option line already
	}
	cmd.Stdin = strings.NewReader(script)
	var out bytes.Buffer
	cmd.Stdout = &out
	cmd.Stderr = &out
	err := cmd.Run()
	el := time.Since(start).Seconds()
	text := out.String()
	first := ""
	for _, l := range strings.Split(text, "\n") {
		// z3 prints pattern warnings (a pattern containing ite/and/not is ignored) before its answer
		if l = strings.TrimSpace(l); l != "" && !strings.HasPrefix(l, "WARNING:") {
			first = l
			break
		}
	}
	res := SolveResult{Solver: sd.name, Seconds: el, Output: text}
	switch first {
	case "unsat", "sat", "unknown":
		res.Status = first
	case "timeout":
		res.Status = "timeout"
	default:
		if ctx.Err() != nil {
			res.Status = "timeout"
		} else if err != nil || first != "" {
			res.Status = "error"
		} else {
			res.Status = "unknown"
		}
	}
	return res
}

// race runs the solvers concurrently; the first definitive answer wins.
func race(script string, timeoutS int, which []solverDef) SolveResult {
	return raceCtx(context.Background(), script, timeoutS, which)
}

func raceCtx(parent context.Context, script string, timeoutS int, which []solverDef) SolveResult {
	ctx, cancel := context.WithCancel(parent)
	defer cancel() // kills the solvers still running once an answer is in
	ch := make(chan SolveResult, len(which))
	for _, sd := range which {
		go func(sd solverDef) { ch <- runSolverCtx(ctx, sd, script, timeoutS) }(sd)
	}
	var last SolveResult
	for i := 0; i < len(which); i++ {
		res := <-ch
		if res.Status == "unsat" || res.Status == "sat" {
			return res
		}
		if last.Status == "" || last.Status == "error" {
			last = res
		}
	}
	return last
}

type solveJob struct {
	o   *Obligation
	res SolveResult
}

// solveAll discharges obligations in parallel. Stage 1: z3-new alone with a
// short limit; stage 2: all three solvers race (three cores per job).
func solveAll(obls []*Obligation, tier string, par int, dumpDir string) map[*Obligation]SolveResult {
	out := map[*Obligation]SolveResult{}
	var mu sync.Mutex
	cores := make(chan struct{}, par)
	acquire := func(n int) {
		for i := 0; i < n; i++ {
			cores <- struct{}{}
		}
	}
	release := func(n int) {
		for i := 0; i < n; i++ {
			<-cores
		}
	}
	var raceMu sync.Mutex // serialises multi-core acquisition (no deadlock between racers)
	var wg sync.WaitGroup
	quickT, slowT := 3, 120
	if tier == "thorough" {
		quickT, slowT = 5, 300
	}
	for _, o := range obls {
		wg.Add(1)
		go func(o *Obligation) {
			defer wg.Done()
			script := o.scriptText(true)
			if dumpDir != "" {
				os.WriteFile(filepath.Join(dumpDir, sanitize(o.Name)+".smt2"), []byte(script), 0644)
			}
			acquire(1)
			res := runSolver(solvers[0], script, quickT)
			release(1)
			ground := ""
			if o.Site {
				mu.Lock()
				out[o] = res
				mu.Unlock()
				return
			}
			if res.Status != "unsat" && res.Status != "sat" && o.Kind != "cover" && o.hasQuantLines() {
				ground = o.scriptTextG(false, true)
			}
			if res.Status != "unsat" && res.Status != "sat" {
				raceMu.Lock()
				acquire(len(solvers))
				raceMu.Unlock()
				var r2 SolveResult
				if ground != "" {
					// race the ground variant (instances only) against the full script
					gctx, gcancel := context.WithCancel(context.Background())
					gch := make(chan SolveResult, 2)
					go func() {
						g := runSolverCtx(gctx, solvers[0], ground, slowT)
						if g.Status != "unsat" {
							g.Status = "unknown"
						} else {
							g.Solver += "/ground"
						}
						gch <- g
					}()
					go func() { gch <- raceCtx(gctx, script, slowT, solvers[1:]) }()
					r2 = <-gch
					if r2.Status != "unsat" && r2.Status != "sat" {
						r2 = <-gch
					}
					gcancel()
				} else {
					r2 = race(script, slowT, solvers)
				}
				release(len(solvers))
				if r2.Status == "unsat" || r2.Status == "sat" || res.Status == "error" {
					r2.Seconds += res.Seconds
					res = r2
				}
			}
			if tier == "thorough" && res.Status == "unsat" && o.Kind != "cover" {
				// agreement: a second, independent solver must confirm
				res.Agree = []string{res.Solver}
				acquire(1)
				for _, sd := range solvers {
					if sd.name == res.Solver || strings.Split(sd.name, "/")[0] == strings.Split(res.Solver, "/")[0] {
						continue
					}
					r2 := runSolver(sd, script, slowT)
					if r2.Status == "unsat" {
						res.Agree = append(res.Agree, sd.name)
						break
					}
					if r2.Status == "sat" {
						res.Status = "disagree"
						res.Output += "\n--- " + sd.name + " says sat\n" + r2.Output
						break
					}
				}
				release(1)
			}
			if res.Status == "sat" {
				res.Model = parseModel(res.Output, o)
			}
			mu.Lock()
			out[o] = res
			mu.Unlock()
		}(o)
	}
	wg.Wait()
	return out
}

// parseModel extracts (term value) pairs from a get-value answer.
func parseModel(out string, o *Obligation) map[string]string {
	m := map[string]string{}
	i := strings.Index(out, "\n")
	if i < 0 {
		return m
	}
	body := strings.TrimSpace(out[i+1:])
	if !strings.HasPrefix(body, "(") {
		return m
	}
	// body = ((t1 v1) (t2 v2) ...)
	items := splitSexprs(body[1:])
	for _, it := range items {
		it = strings.TrimSpace(it)
		if !strings.HasPrefix(it, "(") {
			continue
		}
		inner := it[1 : len(it)-1]
		// first token or sexpr is the term
		var term, val string
		if strings.HasPrefix(inner, "(") {
			d := 0
			for k := 0; k < len(inner); k++ {
				if inner[k] == '(' {
					d++
				} else if inner[k] == ')' {
					d--
					if d == 0 {
						term, val = inner[:k+1], strings.TrimSpace(inner[k+1:])
						break
					}
				}
			}
		} else {
			sp := strings.IndexByte(inner, ' ')
			if sp < 0 {
				continue
			}
			term, val = inner[:sp], strings.TrimSpace(inner[sp+1:])
		}
		m[term] = val
	}
	return m
}
