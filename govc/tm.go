package main

// Thread-modular reasoning for lock-free code (DESIGN §2.5, `atomic` contracts).
//
//   //@ atomic
//   //@ shared s.streams[*], s.offset, s.inuseStreams
//   //@ atomic_inv <expr>            global invariant of the shared state (rely and guarantee)
//   //@ guarantee streams: <expr over old_val, new_val, idx>   for every successful write to that family
//   //@ observe streams into seen    ghost: seen[idx] |= every value loaded from streams[idx]
//
// Before every atomic operation the shared locations are havocked and the
// invariant assumed (the environment may have run); after every atomic write
// the invariant and the family's guarantee are obligations. Ghost variables
// <family>_cas_done/_cas_idx/_cas_old/_cas_new/_add_sum record this thread's
// own successful writes and can be used in postconditions.

import (
	"math/big"
	"fmt"
	"go/types"
	"strings"

	"golang.org/x/tools/go/ssa"
)

type tmInfo struct {
	shared     []string
	invs       []Clause
	guarantees map[string][]Clause
	observe    map[string]string
	observeAll map[string]string // `observe F into g all`: g[idx] &= every value observed (bits set in ALL observations)
}

func (e *Exec) tm() *tmInfo {
	if e.tmCache != nil {
		return e.tmCache
	}
	fc := e.fc
	if fc == nil {
		return nil
	}
	if _, ok := fc.Flags["atomic"]; !ok {
		return nil
	}
	ti := &tmInfo{guarantees: map[string][]Clause{}, observe: map[string]string{}}
	for _, s := range splitTop(fc.Flags["shared"], ',') {
		if s = strings.TrimSpace(s); s != "" {
			ti.shared = append(ti.shared, s)
		}
	}
	for _, cl := range fc.Lists["atomic_inv"] {
		ti.invs = append(ti.invs, cl)
	}
	for _, cl := range fc.Lists["guarantee"] {
		i := strings.Index(cl.Expr, ":")
		if i < 0 {
			continue
		}
		fam := strings.TrimSpace(cl.Expr[:i])
		c2 := cl
		c2.Expr = strings.TrimSpace(cl.Expr[i+1:])
		ti.guarantees[fam] = append(ti.guarantees[fam], c2)
	}
	for _, cl := range fc.Lists["observe"] {
		f := strings.Fields(cl.Expr)
		if len(f) == 3 && f[1] == "into" {
			ti.observe[f[0]] = f[2]
		}
		if len(f) == 4 && f[1] == "into" && f[3] == "all" {
			if ti.observeAll == nil {
				ti.observeAll = map[string]string{}
			}
			ti.observeAll[f[0]] = f[2]
		}
	}
	e.tmCache = ti
	return ti
}

// family: which shared field does the address operand of an atomic op denote?
func atomicFamily(v ssa.Value) (fam string, idx ssa.Value) {
	switch x := v.(type) {
	case *ssa.Global:
		return x.Name(), nil // a package-level counter (clockSeq)
	case *ssa.FieldAddr:
		stt := x.X.Type().Underlying().(*types.Pointer).Elem().Underlying().(*types.Struct)
		return stt.Field(x.Field).Name(), nil
	case *ssa.IndexAddr:
		if ld, ok := x.X.(*ssa.UnOp); ok {
			if fa, ok := ld.X.(*ssa.FieldAddr); ok {
				stt := fa.X.Type().Underlying().(*types.Pointer).Elem().Underlying().(*types.Struct)
				return stt.Field(fa.Field).Name(), x.Index
			}
		}
	}
	return "", nil
}

func (e *Exec) ghostGet(st *State, name string, t types.Type, init string) Val {
	key := "ghost|" + name
	srt := e.sc.sortOf(t)
	if _, ok := e.memSort[key]; !ok {
		e.memSort[key] = srt
		e.initMem[key] = e.sc.define("g0."+name, srt, init)
		e.ghostTypes[name] = t
	}
	if v, ok := st.mem[key]; ok {
		return Val{T: t, S: v}
	}
	return Val{T: t, S: e.initMem[key]}
}

func (e *Exec) ghostSet(st *State, name string, t types.Type, term string) {
	e.ghostGet(st, name, t, e.sc.zero(t))
	st.mem["ghost|"+name] = e.sc.define("g."+name, e.sc.sortOf(t), term)
}

// ghostVars exposes the ghost variables to contract expressions.
func (e *Exec) ghostVars(st *State) map[string]Val {
	out := map[string]Val{}
	for name, t := range e.ghostTypes {
		if e.rawGhost[name] {
			continue
		}
		out[name] = e.ghostGet(st, name, t, e.sc.zero(t))
	}
	return out
}

func (e *Exec) tmEnvStep(st *State, ti *tmInfo) {
	// the environment may have changed every shared location
	c := e.specEnv(e.entry, nil)
	targets, err := e.evalModifies(c, ti.shared)
	if err != nil {
		e.note("CONTRACT-ERROR shared: %v", err)
		return
	}
	for _, t := range targets {
		cur := e.memGet(st, t.key, t.sort)
		elemSort := strings.TrimSuffix(strings.TrimPrefix(t.sort, "(Array Int "), ")")
		nv := e.sc.fresh("env."+t.key, elemSort)
		e.assume(st, e.wfBySort(st, nv, elemSort))
		e.memSet(st, t.key, t.sort, fmt.Sprintf("(store %s %s %s)", cur, t.ref, nv))
	}
	for _, cl := range ti.invs {
		cc := e.specEnv(st, e.entry)
		cc.where = fmt.Sprintf("%s:%d", cl.File, cl.Line)
		t, err := cc.evalBool(cl.Expr)
		if err != nil {
			e.note("CONTRACT-ERROR atomic_inv: %v", err)
			continue
		}
		e.assume(st, t)
	}
}

func (e *Exec) tmAfterWrite(st *State, ti *tmInfo, fam string, idx string, oldV, newV Val, cond string, pos ssa.Instruction) {
	// guarantee of the family and the global invariant, under the success condition
	for i, cl := range ti.guarantees[fam] {
		cc := e.specEnv(st, e.entry)
		cc.where = fmt.Sprintf("%s:%d", cl.File, cl.Line)
		cc.vars["old_val"] = oldV
		cc.vars["new_val"] = newV
		if idx != "" {
			cc.vars["idx"] = Val{T: tInt, S: idx}
		}
		t, err := cc.evalBool(cl.Expr)
		if err != nil {
			e.note("CONTRACT-ERROR guarantee: %v", err)
			continue
		}
		e.checkPost(st, "guarantee", fmt.Sprintf("%s.%d:%s", fam, i, e.srcText(pos.Pos())), imp(cond, t), cl.Props, e.eng.posString(pos.Pos()))
	}
	for i, cl := range ti.invs {
		cc := e.specEnv(st, e.entry)
		cc.where = fmt.Sprintf("%s:%d", cl.File, cl.Line)
		t, err := cc.evalBool(cl.Expr)
		if err != nil {
			continue
		}
		e.checkPost(st, "guarantee", fmt.Sprintf("inv%d:%s", i, e.srcText(pos.Pos())), t, cl.Props, e.eng.posString(pos.Pos()))
	}
}

func tmAtomicHook(e *Exec, st *State, name string, cc *ssa.CallCommon, args []Val, dst ssa.Value) bool {
	ti := e.tm()
	if ti == nil {
		return false
	}
	fam, idxV := atomicFamily(cc.Args[0])
	if fam == "" {
		e.note("%s: atomic operation on an unrecognised location", e.fn.String())
		return false
	}
	idx := ""
	if idxV != nil {
		idx = e.toIdx(st, e.val(st, idxV))
	}
	e.libUsed["lib:"+name+" (sequentially consistent atomic)"] = true
	ins := e.curInstr
	e.tmEnvStep(st, ti)
	p := args[0]
	cur := e.load(st, p)
	switch {
	case strings.Contains(name, ".Load"):
		if g, ok := ti.observe[fam]; ok && idx != "" {
			at := types.NewArray(cur.T, 1)
			seen := e.ghostGet(st, g, at, e.sc.zero(at))
			e.ghostSet(st, g, at, fmt.Sprintf("(store %s %s (bvor (select %s %s) %s))", seen.S, idx, seen.S, idx, cur.S))
		}
		if g, ok := ti.observeAll[fam]; ok && idx != "" && e.mode == ModeBV {
			at := types.NewArray(cur.T, 1)
			seen := e.ghostGet(st, g, at, e.allOnesArray(cur.T))
			e.ghostSet(st, g, at, fmt.Sprintf("(store %s %s (bvand (select %s %s) %s))", seen.S, idx, seen.S, idx, cur.S))
		}
		e.setResult(st, dst, cur)
	case strings.Contains(name, ".CompareAndSwap"):
		ok := e.sc.define("casok", "Bool", eq(cur.S, args[1].S))
		nv := Val{T: cur.T, S: e.sc.define("casnv", e.sc.sortOf(cur.T), ite(ok, args[2].S, cur.S))}
		e.store(st, p, nv)
		// ghost record of this thread's successful CAS
		done := e.ghostGet(st, fam+"_cas_done", tBool, "false")
		e.ghostSet(st, fam+"_cas_done", tBool, or(done.S, ok))
		cnt := e.ghostGet(st, fam+"_cas_count", tInt, e.sc.idxLit(0))
		e.ghostSet(st, fam+"_cas_count", tInt, ite(ok, e.add(cnt.S, e.sc.idxLit(1)), cnt.S))
		for _, g := range []struct {
			n string
			v string
			t types.Type
		}{{"_cas_old", cur.S, cur.T}, {"_cas_new", args[2].S, cur.T}} {
			old := e.ghostGet(st, fam+g.n, g.t, e.sc.zero(g.t))
			e.ghostSet(st, fam+g.n, g.t, ite(ok, g.v, old.S))
		}
		if idx != "" {
			old := e.ghostGet(st, fam+"_cas_idx", tInt, e.sc.idxLit(0))
			e.ghostSet(st, fam+"_cas_idx", tInt, ite(ok, idx, old.S))
		}
		if g, okk := ti.observe[fam]; okk && idx != "" {
			// a failed CAS observes nothing; a successful one observes the old value
			at := types.NewArray(cur.T, 1)
			seen := e.ghostGet(st, g, at, e.sc.zero(at))
			e.ghostSet(st, g, at, ite(ok, fmt.Sprintf("(store %s %s (bvor (select %s %s) %s))", seen.S, idx, seen.S, idx, cur.S), seen.S))
		}
		if g, okk := ti.observeAll[fam]; okk && idx != "" && e.mode == ModeBV {
			at := types.NewArray(cur.T, 1)
			seen := e.ghostGet(st, g, at, e.allOnesArray(cur.T))
			e.ghostSet(st, g, at, ite(ok, fmt.Sprintf("(store %s %s (bvand (select %s %s) %s))", seen.S, idx, seen.S, idx, cur.S), seen.S))
		}
		e.tmAfterWrite(st, ti, fam, idx, cur, Val{T: cur.T, S: args[2].S}, ok, ins)
		e.setResult(st, dst, Val{T: tBool, S: ok})
	case strings.Contains(name, ".Add"):
		var nvS string
		if e.mode == ModeBV {
			nvS = fmt.Sprintf("(bvadd %s %s)", cur.S, args[1].S)
		} else {
			nvS = fmt.Sprintf("(+ %s %s)", cur.S, args[1].S)
		}
		nv := Val{T: cur.T, S: e.sc.define("atomadd", e.sc.sortOf(cur.T), nvS)}
		e.store(st, p, nv)
		sum := e.ghostGet(st, fam+"_add_sum", cur.T, e.sc.zero(cur.T))
		if e.mode == ModeBV {
			e.ghostSet(st, fam+"_add_sum", cur.T, fmt.Sprintf("(bvadd %s %s)", sum.S, args[1].S))
		} else {
			e.ghostSet(st, fam+"_add_sum", cur.T, fmt.Sprintf("(+ %s %s)", sum.S, args[1].S))
		}
		cnt := e.ghostGet(st, fam+"_add_count", tInt, e.sc.idxLit(0))
		e.ghostSet(st, fam+"_add_count", tInt, e.add(cnt.S, e.sc.idxLit(1)))
		e.tmAfterWrite(st, ti, fam, idx, cur, nv, "true", ins)
		e.setResult(st, dst, nv)
	case strings.Contains(name, ".Store"):
		nv := args[1]
		e.store(st, p, nv)
		e.tmAfterWrite(st, ti, fam, idx, cur, nv, "true", ins)
	default:
		return false
	}
	return true
}

func installHooks(eng *Engine, prop string) {
	eng.tmAtomic = tmAtomicHook
	eng.allocHook = allocHook
	eng.tmSend = sendHook
}

// Channel sends: ghost send counter per channel and last message per channel
// (keys ghost|send.count, ghost|send.val.<sort>), readable in contracts as
// sent(ch) and sentval(ch).
func (e *Exec) sendCount(st *State) string {
	at := types.NewArray(tInt, 1)
	key := "send_count"
	if _, ok := e.ghostTypes[key]; !ok {
		e.memSort["ghost|"+key] = fmt.Sprintf("(Array Int %s)", e.sc.idx())
		e.initMem["ghost|"+key] = e.sc.define("g0."+key, e.memSort["ghost|"+key], fmt.Sprintf("((as const (Array Int %s)) %s)", e.sc.idx(), e.sc.idxLit(0)))
		e.ghostTypes[key] = at
		e.rawGhost[key] = true
	}
	if v, ok := st.mem["ghost|"+key]; ok {
		return v
	}
	return e.initMem["ghost|"+key]
}

// selRecvCount: receives performed by the chosen case of a select, per channel (selrecvd(ch)).
func (e *Exec) selRecvCount(st *State) string {
	key := "selrecv_count"
	if _, ok := e.ghostTypes[key]; !ok {
		e.memSort["ghost|"+key] = fmt.Sprintf("(Array Int %s)", e.sc.idx())
		e.initMem["ghost|"+key] = e.sc.define("g0."+key, e.memSort["ghost|"+key], fmt.Sprintf("((as const (Array Int %s)) %s)", e.sc.idx(), e.sc.idxLit(0)))
		e.ghostTypes[key] = types.NewArray(tInt, 1)
		e.rawGhost[key] = true
	}
	if v, ok := st.mem["ghost|"+key]; ok {
		return v
	}
	return e.initMem["ghost|"+key]
}

// closeCount: ghost counter of close(ch) per channel, readable in contracts as closed(ch).
func (e *Exec) closeCount(st *State) string {
	key := "close_count"
	if _, ok := e.ghostTypes[key]; !ok {
		e.memSort["ghost|"+key] = fmt.Sprintf("(Array Int %s)", e.sc.idx())
		e.initMem["ghost|"+key] = e.sc.define("g0."+key, e.memSort["ghost|"+key], fmt.Sprintf("((as const (Array Int %s)) %s)", e.sc.idx(), e.sc.idxLit(0)))
		e.ghostTypes[key] = types.NewArray(tInt, 1)
		e.rawGhost[key] = true
	}
	if v, ok := st.mem["ghost|"+key]; ok {
		return v
	}
	return e.initMem["ghost|"+key]
}

func (e *Exec) recvCount(st *State) string {
	key := "recv_count"
	if _, ok := e.ghostTypes[key]; !ok {
		e.memSort["ghost|"+key] = fmt.Sprintf("(Array Int %s)", e.sc.idx())
		e.initMem["ghost|"+key] = e.sc.define("g0."+key, e.memSort["ghost|"+key], fmt.Sprintf("((as const (Array Int %s)) %s)", e.sc.idx(), e.sc.idxLit(0)))
		e.ghostTypes[key] = types.NewArray(tInt, 1)
		e.rawGhost[key] = true
	}
	if v, ok := st.mem["ghost|"+key]; ok {
		return v
	}
	return e.initMem["ghost|"+key]
}

func (e *Exec) sendVals(st *State, elem types.Type) string {
	srt := e.sc.sortOf(elem)
	key := "send_val_" + sortTag(srt)
	if _, ok := e.ghostTypes[key]; !ok {
		e.memSort["ghost|"+key] = fmt.Sprintf("(Array Int %s)", srt)
		e.initMem["ghost|"+key] = e.sc.fresh("g0."+key, e.memSort["ghost|"+key])
		e.ghostTypes[key] = types.NewArray(elem, 1)
		e.rawGhost[key] = true
	}
	if v, ok := st.mem["ghost|"+key]; ok {
		return v
	}
	return e.initMem["ghost|"+key]
}

func sendHook(e *Exec, st *State, x *ssa.Send) {
	if e.curFn != e.fn {
		return
	}
	ch := e.val(st, x.Chan)
	v := e.val(st, x.X)
	if ch.S == "" || v.S == "" {
		return
	}
	e.checkNonNil(st, ch.S, "send:"+e.srcText(x.Chan.Pos()), x.Pos())
	cnt := e.sendCount(st)
	st.mem["ghost|send_count"] = e.sc.define("g.send_count", e.memSort["ghost|send_count"], fmt.Sprintf("(store %s %s %s)", cnt, ch.S, e.add(fmt.Sprintf("(select %s %s)", cnt, ch.S), e.sc.idxLit(1))))
	el := x.Chan.Type().Underlying().(*types.Chan).Elem()
	vals := e.sendVals(st, el)
	key := "ghost|send_val_" + sortTag(e.sc.sortOf(el))
	st.mem[key] = e.sc.define("g.send_val", e.memSort[key], fmt.Sprintf("(store %s %s %s)", vals, ch.S, v.S))
}

// allocHook (C05): an allocation whose element count is not a constant must be
// small (<= 65536 elements) or bounded by the contract's `alloc_bound` expression
// evaluated at function entry (the bytes actually received).
func allocHook(e *Exec, st *State, x ssa.Instruction, l, c string) {
	fc := e.fc
	if fc == nil || e.curFn != e.fn {
		return
	}
	bound, ok := fc.Flags["alloc_bound"]
	if !ok {
		return
	}
	if ms, ok := x.(*ssa.MakeSlice); ok {
		if _, isC := ms.Cap.(*ssa.Const); isC {
			return
		}
	}
	cc := e.specEnv(e.entry, nil)
	bv, err := cc.evalExpr(bound)
	if err != nil {
		e.note("CONTRACT-ERROR alloc_bound: %v", err)
		return
	}
	bv, _ = cc.def(bv)
	small := e.le(c, e.sc.idxLit(65536))
	e.checkPost(st, "alloc", e.srcText(x.Pos()), or(small, e.le(c, bv.S)), []string{"C05"}, e.eng.posString(x.Pos()))
}

// tmInitGhosts creates the ghost variables of every shared family touched by
// an atomic operation of the function, so that loop cutting havocs them.
func (e *Exec) tmInitGhosts(st *State) {
	ti := e.tm()
	if ti == nil {
		return
	}
	for _, b := range e.fn.Blocks {
		for _, ins := range b.Instrs {
			c, ok := ins.(*ssa.Call)
			if !ok {
				continue
			}
			callee := c.Call.StaticCallee()
			if callee == nil || !strings.HasPrefix(callee.String(), "sync/atomic.") {
				continue
			}
			fam, idxV := atomicFamily(c.Call.Args[0])
			if fam == "" {
				continue
			}
			et := c.Call.Args[0].Type().Underlying().(*types.Pointer).Elem()
			n := callee.Name()
			switch {
			case strings.HasPrefix(n, "CompareAndSwap"):
				e.ghostGet(st, fam+"_cas_done", tBool, "false")
				e.ghostGet(st, fam+"_cas_count", tInt, e.sc.idxLit(0))
				e.ghostGet(st, fam+"_cas_old", et, e.sc.zero(et))
				e.ghostGet(st, fam+"_cas_new", et, e.sc.zero(et))
				if idxV != nil {
					e.ghostGet(st, fam+"_cas_idx", tInt, e.sc.idxLit(0))
				}
			case strings.HasPrefix(n, "Add"):
				e.ghostGet(st, fam+"_add_sum", et, e.sc.zero(et))
				e.ghostGet(st, fam+"_add_count", tInt, e.sc.idxLit(0))
			case strings.HasPrefix(n, "Store"):
				// a plain store performs no CAS: the CAS ghosts of the family exist and stay at their
				// initial values, so a contract written for a CAS loop fails its obligations (rather than
				// no longer applying) when the loop is replaced by a store
				e.ghostGet(st, fam+"_cas_done", tBool, "false")
				e.ghostGet(st, fam+"_cas_count", tInt, e.sc.idxLit(0))
				e.ghostGet(st, fam+"_cas_old", et, e.sc.zero(et))
				e.ghostGet(st, fam+"_cas_new", et, e.sc.zero(et))
				if idxV != nil {
					e.ghostGet(st, fam+"_cas_idx", tInt, e.sc.idxLit(0))
				}
			}
			if g, ok := ti.observe[fam]; ok {
				at := types.NewArray(et, 1)
				e.ghostGet(st, g, at, e.sc.zero(at))
			}
			if g, ok := ti.observeAll[fam]; ok && e.mode == ModeBV {
				e.ghostGet(st, g, types.NewArray(et, 1), e.allOnesArray(et))
			}
		}
	}
}

// allOnesArray: the constant array of all-ones words (initial value of an `observe ... all` ghost)
func (e *Exec) allOnesArray(et types.Type) string {
	w, _, _ := intWidth(et.Underlying().(*types.Basic))
	ones := new(big.Int).Sub(new(big.Int).Lsh(big.NewInt(1), uint(w)), big.NewInt(1))
	return fmt.Sprintf("((as const (Array %s %s)) %s)", e.sc.idx(), e.sc.sortOf(et), bvLit(ones, w))
}

func (e *Exec) loopHasAtomics(l *loopInfo) bool {
	for b := range l.body {
		for _, ins := range b.Instrs {
			if c, ok := ins.(*ssa.Call); ok {
				if callee := c.Call.StaticCallee(); callee != nil && strings.HasPrefix(callee.String(), "sync/atomic.") {
					return true
				}
			}
		}
	}
	return false
}
