package main

import (
	"fmt"
	"go/ast"
	"go/parser"
)

func parseTypeExpr(s string) (ast.Expr, error) { return parser.ParseExpr(s) }

func installHooks(eng *Engine, prop string) {}

func (eng *Engine) lemmaObligations(prop string) ([]*Obligation, error) { return nil, nil }

func (eng *Engine) canaries(prop string, results []*FuncResult) []*Obligation { return nil }

func (r *Report) tryReplay(o *Obligation, s SolveResult, path string) bool { return false }

func cmdReplay(args []string) int {
	fmt.Println("replay: not implemented yet")
	return 0
}

func cmdSelftest(args []string) int { return 0 }
