package main

import (
	"encoding/json"
	"fmt"
	"os/exec"
	"go/ast"
	"go/parser"
	"go/types"
	"os"
	"path/filepath"
	"runtime"
	"sort"
	"strings"
	"time"

	"golang.org/x/tools/go/ssa"
)

func parseTypeExpr(s string) (ast.Expr, error) { return parser.ParseExpr(s) }



func (eng *Engine) canaries(prop string, results []*FuncResult) []*Obligation { return nil }


func cmdSelftest(args []string) int { return 0 }

// cmdSweepAll: engine shake-out — run the executor over every function of a package.
func cmdSweepAll(args []string) int {
	pkg := "github.com/gocql/gocql"
	filter := ""
	solve := false
	for _, a := range args {
		switch {
		case a == "-solve":
			solve = true
		case len(a) > 5 && a[:5] == "-pkg=":
			pkg = a[5:]
		default:
			filter = a
		}
	}
	eng, err := loadEngine(repoDir(), verifDir())
	if err != nil {
		fmt.Println("ERROR:", err)
		return 2
	}
	installHooks(eng, "")
	var fns []*ssa.Function
	for _, sp := range eng.ssaPkgs {
		if sp == nil || sp.Pkg.Path() != pkg {
			continue
		}
		seen := map[*ssa.Function]bool{}
		var visit func(f *ssa.Function)
		visit = func(f *ssa.Function) {
			if seen[f] || len(f.Blocks) == 0 {
				return
			}
			seen[f] = true
			fns = append(fns, f)
			for _, a := range f.AnonFuncs {
				visit(a)
			}
		}
		for _, m := range sp.Members {
			switch x := m.(type) {
			case *ssa.Function:
				visit(x)
			case *ssa.Type:
				for _, t := range []types.Type{x.Type(), types.NewPointer(x.Type())} {
					ms := eng.prog.MethodSets.MethodSet(t)
					for i := 0; i < ms.Len(); i++ {
						if f := eng.prog.MethodValue(ms.At(i)); f != nil && f.Synthetic == "" {
							visit(f)
						}
					}
				}
			}
		}
	}
	sort.Slice(fns, func(i, j int) bool { return fns[i].String() < fns[j].String() })
	tot := 0
	for _, fn := range fns {
		if filter != "" && !strings.Contains(fn.String(), filter) {
			continue
		}
		t0 := time.Now()
		r := eng.verifyFunc(fn, eng.contractFor(fn), []string{"X"}, scenarioT{})
		el := time.Since(t0).Seconds()
		if r.Err != nil {
			fmt.Printf("ERR   %-60s %v\n", fn.String(), r.Err)
			continue
		}
		lines := 0
		if len(r.Obls) > 0 {
			lines = r.Obls[len(r.Obls)-1].Prefix
		}
		tot += len(r.Obls)
		summary := ""
		if solve {
			res := solveAll(r.Obls, "quick", runtime.NumCPU(), "")
			cnt := map[string]int{}
			var bad []string
			for _, o := range r.Obls {
				cnt[res[o].Status]++
				if res[o].Status != "unsat" {
					bad = append(bad, res[o].Status+":"+strings.SplitN(o.Name, "#", 2)[1])
					if res[o].Status == "error" {
						bad = append(bad, firstLines(res[o].Output, 3))
					}
				}
			}
			summary = fmt.Sprintf("%v %v", cnt, bad)
		}
		fmt.Printf("OK    %-60s obls=%-4d lines=%-6d %.2fs notes=%d %s\n", fn.String(), len(r.Obls), lines, el, len(r.Notes), summary)
		for _, n := range r.Notes {
			fmt.Printf("        note: %s\n", n)
		}
	}
	fmt.Println("total obligations:", tot)
	return 0
}

// lemmaObligations loads /verif/spec/lemmas/*.smt2: stand-alone lemmas over the
// spec functions / contracts (no code). Header: ";; lemma NAME props Cxx mode bv needs a,b".
func (eng *Engine) lemmaObligations(prop string) ([]*Obligation, error) {
	files, _ := filepath.Glob(filepath.Join(eng.verifDir, "spec", "lemmas", "*.smt2"))
	sort.Strings(files)
	var out []*Obligation
	for _, f := range files {
		data, err := os.ReadFile(f)
		if err != nil {
			return nil, err
		}
		var cur *Obligation
		var curBody []string
		flush := func() {
			if cur == nil {
				return
			}
			for _, l := range splitSexprs(strings.Join(curBody, "\n")) {
				cur.Script.emit(l)
			}
			cur.Prefix = cur.Script.mark()
			out = append(out, cur)
			cur = nil
			curBody = nil
		}
		for ln, line := range strings.Split(string(data), "\n") {
			if strings.HasPrefix(line, ";; lemma ") {
				flush()
				fs := strings.Fields(strings.TrimPrefix(line, ";; lemma "))
				name := fs[0]
				mode := ModeBV
				var props, needs []string
				for i := 1; i < len(fs); i++ {
					switch fs[i] {
					case "props":
					case "mode":
					case "bv":
					case "int":
						mode = ModeInt
					case "needs":
						if i+1 < len(fs) {
							needs = strings.Split(fs[i+1], ",")
							i++
						}
					default:
						if strings.HasPrefix(fs[i], "C") {
							props = append(props, fs[i])
						}
					}
				}
				if !hasProp(props, prop) {
					continue
				}
				sc := newScript(mode)
				for _, n := range needs {
					eng.spec.needBlock(sc, n)
				}
				cur = &Obligation{Name: "lemma." + name, Kind: "lemma", Func: "lemma", Pos: fmt.Sprintf("spec/lemmas/%s:%d", filepath.Base(f), ln+1), Goal: "false", PC: "true", Script: sc, Expect: "unsat", Props: props}
				continue
			}
			if cur != nil {
				curBody = append(curBody, line)
			}
		}
		flush()
	}
	return out, nil
}

// ---------- structural (call-graph) frame conditions ----------

type structCheck struct {
	Name    string   `json:"name"`
	Props   []string `json:"props"`
	Kind    string   `json:"kind"`    // "only-callers"
	Callee  string   `json:"callee"`  // full function name, or "invoke:<Iface>.<Method>"
	Allowed []string `json:"allowed"` // full names of the functions allowed to call it
	Why     string   `json:"why"`
}

// structuralObligations evaluates /verif/spec/structure.json on the SSA of /repo.
// Each check yields an obligation whose goal is the constant true/false computed
// here (so that it flows through the same reporting); the caller list found is in Desc.
func (eng *Engine) structuralObligations(prop string) []*Obligation {
	var checks []structCheck
	if err := readJSON(filepath.Join(eng.verifDir, "spec", "structure.json"), &checks); err != nil {
		return nil
	}
	var out []*Obligation
	for _, ck := range checks {
		if !hasProp(ck.Props, prop) {
			continue
		}
		allowed := map[string]bool{}
		for _, a := range ck.Allowed {
			allowed[a] = true
		}
		var offenders []string
		found := 0
		seen := map[*ssa.Function]bool{}
		var visit func(f *ssa.Function)
		visit = func(f *ssa.Function) {
			if f == nil || seen[f] {
				return
			}
			seen[f] = true
			for _, b := range f.Blocks {
				for _, ins := range b.Instrs {
					ci, ok := ins.(ssa.CallInstruction)
					if !ok {
						continue
					}
					cc := ci.Common()
					name := ""
					if cc.IsInvoke() {
						name = "invoke:" + types.TypeString(cc.Value.Type(), func(p *types.Package) string { return p.Name() }) + "." + cc.Method.Name()
					} else if c := cc.StaticCallee(); c != nil {
						name = c.String()
					}
					if name != ck.Callee {
						continue
					}
					found++
					root := f
					for root.Parent() != nil {
						root = root.Parent()
					}
					if !allowed[f.String()] && !allowed[root.String()] {
						offenders = append(offenders, f.String()+" @ "+eng.posString(ins.Pos()))
					}
				}
			}
			for _, a := range f.AnonFuncs {
				visit(a)
			}
		}
		for _, sp := range eng.ssaPkgs {
			if sp == nil {
				continue
			}
			for _, m := range sp.Members {
				switch x := m.(type) {
				case *ssa.Function:
					visit(x)
				case *ssa.Type:
					for _, t := range []types.Type{x.Type(), types.NewPointer(x.Type())} {
						ms := eng.prog.MethodSets.MethodSet(t)
						for i := 0; i < ms.Len(); i++ {
							visit(eng.prog.MethodValue(ms.At(i)))
						}
					}
				}
			}
		}
		sc := newScript(ModeBV)
		goal := "true"
		if len(offenders) > 0 || found == 0 {
			goal = "false"
		}
		desc := fmt.Sprintf("%d call sites of %s; not allowed: %v", found, ck.Callee, offenders)
		out = append(out, &Obligation{Name: "structure." + ck.Name, Kind: "structure", Func: "call graph", Pos: "spec/structure.json", Prefix: sc.mark(), Goal: goal, PC: "true", Script: sc, Expect: "unsat", Props: ck.Props, Desc: desc})
	}
	return out
}

// ---------- bounded stand-ins ----------

type boundedResult struct {
	Name   string `json:"name"`
	Detail string `json:"detail"`
	OK     bool   `json:"ok"`
}

// runBounded runs /verif/bounded/<prop>_*_test.go as in-package tests of /repo through an
// overlay (nothing is written into the repository). These are BOUNDED checks for
// functions outside the verifier's reach; they are reported separately and never
// counted as discharged obligations.
func (eng *Engine) runBounded(prop string) ([]boundedResult, string) {
	files, _ := filepath.Glob(filepath.Join(eng.verifDir, "bounded", prop+"_*_test.go"))
	if len(files) == 0 {
		return nil, ""
	}
	tmp, err := os.MkdirTemp("/var/tmp", "govc-bounded-")
	if err != nil {
		return []boundedResult{{Name: "bounded", Detail: err.Error()}}, ""
	}
	defer os.RemoveAll(tmp)
	repl := map[string]string{}
	for _, f := range files {
		repl[filepath.Join(eng.repo, "zz_verif_"+filepath.Base(f))] = f
	}
	ov, _ := json.Marshal(map[string]interface{}{"Replace": repl})
	ovPath := filepath.Join(tmp, "ov.json")
	os.WriteFile(ovPath, ov, 0644)
	cmd := exec.Command("go", "test", "-overlay", ovPath, "-vet=off", "-count=1", "-timeout", "300s", "-run", "^TestVerifBounded", "-v", ".")
	cmd.Dir = eng.repo
	cmd.Env = append(os.Environ(), "GOFLAGS=-mod=mod", "GOPROXY=off", "GOSUMDB=off", "GOTOOLCHAIN=local")
	out, _ := cmd.CombinedOutput()
	var res []boundedResult
	sawAny := false
	for _, l := range strings.Split(string(out), "\n") {
		switch {
		case strings.HasPrefix(l, "BOUNDED-OK "):
			f := strings.SplitN(strings.TrimPrefix(l, "BOUNDED-OK "), " ", 2)
			d := ""
			if len(f) > 1 {
				d = f[1]
			}
			res = append(res, boundedResult{Name: f[0], Detail: d, OK: true})
			sawAny = true
		case strings.HasPrefix(l, "BOUNDED-FAIL "):
			f := strings.SplitN(strings.TrimPrefix(l, "BOUNDED-FAIL "), " ", 2)
			d := ""
			if len(f) > 1 {
				d = f[1]
			}
			res = append(res, boundedResult{Name: f[0], Detail: d, OK: false})
			sawAny = true
		}
	}
	if !sawAny {
		res = append(res, boundedResult{Name: prop + ".bounded-harness", Detail: "no result lines; output: " + firstLines(string(out), 12), OK: false})
	}
	return res, string(out)
}
