package main

// Contract files: comment-only Go files guarded by `//go:build verif`, with
// Gobra-style `//@` lines (DESIGN §2.1).
//
//   //@ func (f *framer) readInt
//   //@   props C04 C05
//   //@   mode bv
//   //@   requires <expr>
//   //@   ensures[C04] <expr>
//   //@   modifies f.buf
//   //@   loop 0: invariant <expr>
//   //@   loop 0: decreases <expr>
//   //@   loop 0: unroll 16
//   //@   trusted            (contract is assumed, body not verified)
//   //@   inline             (callers inline the body)
//   //@   boundary           (API boundary: soft panics must not escape)
//   //@ lemma NAME props C19: <smt or expr>
//
// A line ending in `\` continues on the next `//@` line.

import (
	"bufio"
	"fmt"
	"os"
	"path/filepath"
	"regexp"
	"strconv"
	"strings"
)

type Clause struct {
	Expr    string
	Props   []string
	Variant string // proved only in this verification variant (callers get "variant-condition ==> clause")
	Label   string
	File    string
	Line    int
}

// variantExpr returns the condition of a named variant.
func (fc *FuncContract) variantExpr(name string) string {
	for _, v := range fc.Lists["variant"] {
		i := strings.Index(v.Expr, ":")
		if i >= 0 && strings.TrimSpace(v.Expr[:i]) == name {
			return strings.TrimSpace(v.Expr[i+1:])
		}
	}
	return ""
}

type LoopContract struct {
	Invariants []Clause
	Decreases  string
	Unroll     int
	Uses       []string
	Exits      []Clause // asserted (proved, then assumed) on every edge leaving the loop
	Steps      []Clause // proved on the back edge; may use prev(e) = value of e at the loop head of this iteration
}

type FuncContract struct {
	Key      string // RelString form: "(*framer).readInt", "readInt", "roundRobbin$1"
	PkgDir   string
	Mode     Mode
	ModeSet  bool
	Props    []string
	Requires []Clause
	Ensures  []Clause
	Modifies []string
	HasMod   bool
	Loops    map[int]*LoopContract
	VLoops   map[string]map[int]*LoopContract // variant-specific loop clauses
	Trusted  bool
	Inline   bool
	Boundary bool
	NoVerify bool // contract used by callers only; verification of the body skipped (listed as assumed)
	Flags    map[string]string
	Ghost    []string
	File     string
	Line     int
	Uses     []string
	Scenario map[string][]string // param -> list of Go type expressions
	Assumes  []Clause
	Lists    map[string][]Clause // other keyword -> clauses (atomic_inv, guarantee, observe, ...)
}

type Lemma struct {
	Name  string
	Props []string
	Mode  Mode
	Body  string // raw SMT-LIB (assert-negated goal is built by the engine) or spec expression
	Raw   bool
	Needs []string
	File  string
	Line  int
}

// Predicate: `predicate name(p1, p2): expr` - a named Boolean (or value) abbreviation usable in
// every contract expression of the package; expanded by evaluation with the parameters bound.
type Predicate struct {
	Name   string
	Params []string
	Body   string
	File   string
	Line   int
}

type ContractSet struct {
	Preds  map[string]*Predicate
	Funcs  map[string]*FuncContract // key: pkgpath + "::" + Key
	Lemmas []*Lemma
	Files  []string
}

var funcHdrRe = regexp.MustCompile(`^func\s+(\(([^)]*)\)\s*)?([A-Za-z_][A-Za-z0-9_$.]*)`)
var clauseRe = regexp.MustCompile(`^([a-z_]+)(\[([A-Za-z0-9_@, .*-]+)\])?(\s+|$)(.*)$`)

func parseRecv(r string) string {
	r = strings.TrimSpace(r)
	parts := strings.Fields(r)
	t := parts[len(parts)-1]
	return t
}

func loadContracts(root string, pkgPathOf func(dir string) string) (*ContractSet, error) {
	cs := &ContractSet{Funcs: map[string]*FuncContract{}, Preds: map[string]*Predicate{}}
	var files []string
	filepath.Walk(root, func(p string, info os.FileInfo, err error) error {
		if err != nil {
			return nil
		}
		if info.IsDir() && (info.Name() == ".git" || info.Name() == "vendor" || info.Name() == "testdata") {
			return filepath.SkipDir
		}
		if !info.IsDir() && strings.HasPrefix(info.Name(), "verif_contracts") && strings.HasSuffix(info.Name(), ".go") {
			files = append(files, p)
		}
		return nil
	})
	for _, f := range files {
		if err := cs.parseFile(f, pkgPathOf(filepath.Dir(f))); err != nil {
			return nil, err
		}
		cs.Files = append(cs.Files, f)
	}
	return cs, nil
}

func (cs *ContractSet) parseFile(path, pkgPath string) error {
	fh, err := os.Open(path)
	if err != nil {
		return err
	}
	defer fh.Close()
	sc := bufio.NewScanner(fh)
	sc.Buffer(make([]byte, 1<<20), 1<<20)
	var cur *FuncContract
	var curLemma *Lemma
	ln := 0
	pending := ""
	pendLine := 0
	for sc.Scan() {
		ln++
		line := strings.TrimSpace(sc.Text())
		if !strings.HasPrefix(line, "//@") {
			continue
		}
		body := strings.TrimSpace(strings.TrimPrefix(line, "//@"))
		if pending != "" {
			body = pending + " " + body
		} else {
			pendLine = ln
		}
		if strings.HasSuffix(body, "\\") {
			pending = strings.TrimSpace(strings.TrimSuffix(body, "\\"))
			continue
		}
		pending = ""
		if body == "" || strings.HasPrefix(body, "#") {
			continue
		}
		if strings.HasPrefix(body, "func ") || strings.HasPrefix(body, "func(") {
			m := funcHdrRe.FindStringSubmatch(body)
			if m == nil {
				return fmt.Errorf("%s:%d: bad func header %q", path, ln, body)
			}
			key := m[3]
			if m[2] != "" {
				key = "(" + parseRecv(m[2]) + ")." + m[3]
			}
			cur = &FuncContract{Key: key, Loops: map[int]*LoopContract{}, File: path, Line: pendLine, Flags: map[string]string{}, Scenario: map[string][]string{}, Lists: map[string][]Clause{}, VLoops: map[string]map[int]*LoopContract{}}
			curLemma = nil
			full := pkgPath + "::" + key
			if _, dup := cs.Funcs[full]; dup {
				return fmt.Errorf("%s:%d: duplicate contract for %s", path, ln, key)
			}
			cs.Funcs[full] = cur
			continue
		}
		if strings.HasPrefix(body, "predicate ") {
			rest := strings.TrimPrefix(body, "predicate ")
			i := strings.Index(rest, "):")
			j := strings.Index(rest, "(")
			if i < 0 || j < 0 || j > i {
				return fmt.Errorf("%s:%d: bad predicate", path, ln)
			}
			pr := &Predicate{Name: strings.TrimSpace(rest[:j]), Body: strings.TrimSpace(rest[i+2:]), File: path, Line: pendLine}
			for _, a := range strings.Split(rest[j+1:i], ",") {
				if a = strings.TrimSpace(a); a != "" {
					pr.Params = append(pr.Params, a)
				}
			}
			cs.Preds[pr.Name] = pr
			cur = nil
			curLemma = nil
			continue
		}
		if strings.HasPrefix(body, "lemma ") {
			rest := strings.TrimPrefix(body, "lemma ")
			i := strings.Index(rest, ":")
			if i < 0 {
				return fmt.Errorf("%s:%d: bad lemma", path, ln)
			}
			hdr := strings.Fields(rest[:i])
			l := &Lemma{Name: hdr[0], File: path, Line: pendLine, Body: strings.TrimSpace(rest[i+1:])}
			for j := 1; j < len(hdr); j++ {
				switch hdr[j] {
				case "props":
				case "int":
					l.Mode = ModeInt
				case "bv":
					l.Mode = ModeBV
				default:
					if strings.HasPrefix(hdr[j], "C") {
						l.Props = append(l.Props, hdr[j])
					} else if strings.HasPrefix(hdr[j], "needs=") {
						l.Needs = strings.Split(strings.TrimPrefix(hdr[j], "needs="), ",")
					}
				}
			}
			cs.Lemmas = append(cs.Lemmas, l)
			cur = nil
			curLemma = l
			continue
		}
		if curLemma != nil && cur == nil {
			curLemma.Body += "\n" + body
			continue
		}
		if cur == nil {
			continue // free comment
		}
		if strings.HasPrefix(body, "loop ") {
			rest := strings.TrimPrefix(body, "loop ")
			i := strings.Index(rest, ":")
			if i < 0 {
				return fmt.Errorf("%s:%d: bad loop clause", path, ln)
			}
			lid := strings.TrimSpace(rest[:i])
			variant := ""
			if at := strings.Index(lid, "@"); at >= 0 {
				variant = lid[at+1:]
				lid = lid[:at]
			}
			n, err := strconv.Atoi(lid)
			if err != nil {
				return fmt.Errorf("%s:%d: bad loop ordinal", path, ln)
			}
			loops := cur.Loops
			if variant != "" {
				if cur.VLoops[variant] == nil {
					cur.VLoops[variant] = map[int]*LoopContract{}
				}
				loops = cur.VLoops[variant]
			}
			lc := loops[n]
			if lc == nil {
				lc = &LoopContract{}
				loops[n] = lc
			}
			cl := strings.TrimSpace(rest[i+1:])
			m := clauseRe.FindStringSubmatch(cl)
			if m == nil {
				return fmt.Errorf("%s:%d: bad loop clause %q", path, ln, cl)
			}
			switch m[1] {
			case "invariant":
				lc.Invariants = append(lc.Invariants, Clause{Expr: m[5], Props: splitProps(m[3]), File: path, Line: pendLine})
			case "decreases":
				lc.Decreases = m[5]
			case "use":
				lc.Uses = append(lc.Uses, m[5])
			case "step":
				lc.Steps = append(lc.Steps, Clause{Expr: m[5], Props: splitProps(m[3]), File: path, Line: pendLine})
			case "exit":
				lc.Exits = append(lc.Exits, Clause{Expr: m[5], Props: splitProps(m[3]), File: path, Line: pendLine})
			case "unroll":
				k, err := strconv.Atoi(strings.TrimSpace(m[5]))
				if err != nil {
					return fmt.Errorf("%s:%d: bad unroll", path, ln)
				}
				lc.Unroll = k
			default:
				return fmt.Errorf("%s:%d: unknown loop clause %q", path, ln, m[1])
			}
			continue
		}
		m := clauseRe.FindStringSubmatch(body)
		if m == nil {
			return fmt.Errorf("%s:%d: cannot parse %q", path, ln, body)
		}
		kw, props, arg := m[1], splitProps(m[3]), strings.TrimSpace(m[5])
		switch kw {
		case "props":
			cur.Props = append(cur.Props, strings.Fields(strings.ReplaceAll(arg, ",", " "))...)
		case "mode":
			cur.ModeSet = true
			if arg == "int" {
				cur.Mode = ModeInt
			} else {
				cur.Mode = ModeBV
			}
		case "requires":
			cur.Requires = append(cur.Requires, Clause{Expr: arg, Props: props, File: path, Line: pendLine})
		case "ensures":
			cl := Clause{Expr: arg, File: path, Line: pendLine}
			for _, p := range props {
				if strings.HasPrefix(p, "@") {
					cl.Variant = p[1:]
				} else {
					cl.Props = append(cl.Props, p)
				}
			}
			cur.Ensures = append(cur.Ensures, cl)
		case "assume":
			cur.Assumes = append(cur.Assumes, Clause{Expr: arg, Props: props, File: path, Line: pendLine})
		case "modifies":
			cur.HasMod = true
			for _, p := range splitTop(arg, ',') {
				p = strings.TrimSpace(p)
				if p != "" && p != "nothing" {
					cur.Modifies = append(cur.Modifies, p)
				}
			}
		case "trusted":
			cur.Trusted = true
			cur.Flags["trusted"] = arg
		case "inline":
			cur.Inline = true
		case "boundary":
			cur.Boundary = true
		case "scenario":
			// scenario <param>: T1 | T2 | ...
			i := strings.Index(arg, ":")
			if i < 0 {
				return fmt.Errorf("%s:%d: bad scenario", path, ln)
			}
			p := strings.TrimSpace(arg[:i])
			for _, t := range strings.Split(arg[i+1:], "|") {
				cur.Scenario[p] = append(cur.Scenario[p], strings.TrimSpace(t))
			}
		case "use":
			cur.Uses = append(cur.Uses, arg)
		default:
			cur.Flags[kw] = arg
			cur.Lists[kw] = append(cur.Lists[kw], Clause{Expr: arg, Props: props, File: path, Line: pendLine})
		}
	}
	return nil
}

func splitProps(s string) []string {
	if s == "" {
		return nil
	}
	return strings.Fields(strings.ReplaceAll(s, ",", " "))
}

// splitTop splits s at separator sep occurring at paren/bracket depth 0.
func splitTop(s string, sep byte) []string {
	var out []string
	d := 0
	last := 0
	inStr := byte(0)
	for i := 0; i < len(s); i++ {
		c := s[i]
		if inStr != 0 {
			if c == '\\' {
				i++
			} else if c == inStr {
				inStr = 0
			}
			continue
		}
		switch c {
		case '"', '\'', '`':
			inStr = c
		case '(', '[', '{':
			d++
		case ')', ']', '}':
			d--
		default:
			if c == sep && d == 0 {
				out = append(out, s[last:i])
				last = i + 1
			}
		}
	}
	out = append(out, s[last:])
	return out
}

// rewriteImp turns `A ==> B` (lowest precedence, right associative) into imp(A, B),
// recursively inside parentheses and call arguments.
func rewriteImp(s string) string {
	// first rewrite inside bracketed groups
	var b strings.Builder
	i := 0
	for i < len(s) {
		c := s[i]
		if c == '"' || c == '`' || c == '\'' {
			j := i + 1
			for j < len(s) && s[j] != c {
				if s[j] == '\\' {
					j++
				}
				j++
			}
			if j >= len(s) {
				j = len(s) - 1
			}
			b.WriteString(s[i : j+1])
			i = j + 1
			continue
		}
		if c == '(' || c == '[' {
			// find matching
			d := 0
			j := i
			for ; j < len(s); j++ {
				if s[j] == '(' || s[j] == '[' {
					d++
				} else if s[j] == ')' || s[j] == ']' {
					d--
					if d == 0 {
						break
					}
				}
			}
			if j >= len(s) {
				b.WriteString(s[i:])
				break
			}
			inner := s[i+1 : j]
			parts := splitTop(inner, ',')
			for k := range parts {
				parts[k] = rewriteImp(parts[k])
			}
			b.WriteByte(c)
			b.WriteString(strings.Join(parts, ","))
			b.WriteByte(s[j])
			i = j + 1
			continue
		}
		b.WriteByte(c)
		i++
	}
	t := b.String()
	// split at top-level ==>
	var parts []string
	d := 0
	last := 0
	for k := 0; k+2 < len(t); k++ {
		switch t[k] {
		case '(', '[':
			d++
		case ')', ']':
			d--
		}
		if d == 0 && t[k] == '=' && t[k+1] == '=' && t[k+2] == '>' {
			parts = append(parts, t[last:k])
			last = k + 3
			k += 2
		}
	}
	parts = append(parts, t[last:])
	if len(parts) == 1 {
		return t
	}
	out := strings.TrimSpace(parts[len(parts)-1])
	for k := len(parts) - 2; k >= 0; k-- {
		out = fmt.Sprintf("imp(%s, %s)", strings.TrimSpace(parts[k]), out)
	}
	return out
}

// clauseMentions: is some clause of the contract tagged with the property (ensures[Cxx], before[Cxx],
// at_return[Cxx], loop clauses)? Such a function is verified for that property too; only the tagged
// obligations count for it.
func (fc *FuncContract) clauseMentions(prop string) bool {
	has := func(cls []Clause) bool {
		for _, c := range cls {
			if hasProp(c.Props, prop) {
				return true
			}
		}
		return false
	}
	if has(fc.Requires) || has(fc.Ensures) || has(fc.Assumes) {
		return true
	}
	for _, l := range fc.Lists {
		if has(l) {
			return true
		}
	}
	for _, lc := range fc.Loops {
		if has(lc.Invariants) || has(lc.Steps) || has(lc.Exits) {
			return true
		}
	}
	return false
}
