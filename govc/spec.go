package main

// Translation of contract expressions (Go expression syntax + pseudo-functions)
// into SMT terms, typed with go/types.

import (
	"fmt"
	"go/ast"
	"go/constant"
	"go/parser"
	"go/token"
	"go/types"
	"math/big"
	"os"
	"regexp"
	"strconv"
	"strings"

	"golang.org/x/tools/go/ssa"
)

type sv struct {
	Val
	c constant.Value // non-nil: untyped constant
}

type specCtx struct {
	e       *Exec
	st      *State
	old     *State
	vars    map[string]Val
	results []Val
	resName []string
	soft    string
	pkg     *types.Package
	bound   map[string]Val
	where   string
	extra   map[string]string // pseudo-constants (e.g. loop measure)
	consts  map[string]constant.Value // variables of all()/any() expansions: usable as constants
	qvars   [][2]string     // enclosing quantified variables (name, sort)
	prevSt  *State          // loop step clauses: state at the loop head of this iteration
	prevVar map[string]Val  // ... and the variables as they were there
	callee  bool            // evaluating the contract of a callee at a call site
}

func (c *specCtx) clone() *specCtx {
	n := *c
	n.bound = map[string]Val{}
	for k, v := range c.bound {
		n.bound[k] = v
	}
	return &n
}

func (c *specCtx) errf(format string, a ...interface{}) error {
	return fmt.Errorf("%s: %s", c.where, fmt.Sprintf(format, a...))
}

// evalBool parses and translates a Boolean contract expression.
func (c *specCtx) evalBool(src string) (string, error) {
	src = rewriteImp(src)
	x, err := parser.ParseExpr(src)
	if err != nil {
		return "", c.errf("parse %q: %v", src, err)
	}
	v, err := c.eval(x)
	if err != nil {
		return "", err
	}
	if !isBool(v.T) {
		return "", c.errf("%q is not Boolean (type %v)", src, v.T)
	}
	return v.S, nil
}

func (c *specCtx) evalExpr(src string) (sv, error) {
	src = rewriteImp(src)
	x, err := parser.ParseExpr(src)
	if err != nil {
		return sv{}, c.errf("parse %q: %v", src, err)
	}
	return c.eval(x)
}

var tInt = types.Typ[types.Int]
var tBool = types.Typ[types.Bool]

func (c *specCtx) mk(t types.Type, s string) sv { return sv{Val: Val{T: t, S: s}} }

func (c *specCtx) konst(v constant.Value) sv {
	k := types.UntypedInt
	switch v.Kind() {
	case constant.Bool:
		if constant.BoolVal(v) {
			return c.mk(tBool, "true")
		}
		return c.mk(tBool, "false")
	case constant.String:
		return c.mk(types.Typ[types.String], c.e.sc.strConst(constant.StringVal(v)))
	case constant.Float:
		k = types.UntypedFloat
	}
	return sv{Val: Val{T: types.Typ[k]}, c: v}
}

// materialise gives an untyped constant the type t.
func (c *specCtx) as(v sv, t types.Type) (sv, error) {
	if v.c == nil {
		return v, nil
	}
	if isIntType(t) {
		s, ok := c.e.sc.constVal(v.c, t)
		if !ok {
			return sv{}, c.errf("constant %v does not convert to %v", v.c, t)
		}
		return c.mk(t, s), nil
	}
	if _, ok := isFloat(t); ok {
		s, _ := c.e.sc.constVal(v.c, t)
		return c.mk(t, s), nil
	}
	return sv{}, c.errf("constant %v cannot have type %v", v.c, t)
}

func (c *specCtx) def(v sv) (sv, error) {
	if v.c != nil {
		return c.as(v, tInt)
	}
	return v, nil
}

func (c *specCtx) lookupType(x ast.Expr) types.Type {
	switch t := x.(type) {
	case *ast.Ident:
		if o := types.Universe.Lookup(t.Name); o != nil {
			if tn, ok := o.(*types.TypeName); ok {
				return tn.Type()
			}
		}
		if c.pkg != nil {
			if o := c.pkg.Scope().Lookup(t.Name); o != nil {
				if tn, ok := o.(*types.TypeName); ok {
					return tn.Type()
				}
			}
		}
	case *ast.SelectorExpr:
		if id, ok := t.X.(*ast.Ident); ok && c.pkg != nil {
			for _, imp := range c.pkg.Imports() {
				if imp.Name() == id.Name {
					if o := imp.Scope().Lookup(t.Sel.Name); o != nil {
						if tn, ok := o.(*types.TypeName); ok {
							return tn.Type()
						}
					}
				}
			}
		}
	case *ast.StarExpr:
		if el := c.lookupType(t.X); el != nil {
			return types.NewPointer(el)
		}
	case *ast.ArrayType:
		if el := c.lookupType(t.Elt); el != nil {
			if t.Len == nil {
				return types.NewSlice(el)
			}
			if bl, ok := t.Len.(*ast.BasicLit); ok {
				n, _ := strconv.ParseInt(bl.Value, 0, 64)
				return types.NewArray(el, n)
			}
		}
	case *ast.ParenExpr:
		return c.lookupType(t.X)
	case *ast.InterfaceType:
		if t.Methods == nil || len(t.Methods.List) == 0 {
			return types.NewInterfaceType(nil, nil)
		}
	case *ast.MapType:
		k, v := c.lookupType(t.Key), c.lookupType(t.Value)
		if k != nil && v != nil {
			return types.NewMap(k, v)
		}
	}
	return nil
}

func (c *specCtx) eval(x ast.Expr) (sv, error) {
	e := c.e
	switch n := x.(type) {
	case *ast.ParenExpr:
		return c.eval(n.X)
	case *ast.BasicLit:
		switch n.Kind {
		case token.INT, token.FLOAT, token.CHAR, token.STRING:
			return c.konst(constant.MakeFromLiteral(n.Value, n.Kind, 0)), nil
		}
	case *ast.Ident:
		switch n.Name {
		case "true":
			return c.mk(tBool, "true"), nil
		case "false":
			return c.mk(tBool, "false"), nil
		case "nil":
			return sv{Val: Val{T: types.Typ[types.UntypedNil], S: "nil"}}, nil
		case "result":
			if len(c.results) >= 1 {
				return sv{Val: c.results[0]}, nil
			}
			return sv{}, c.errf("no result here")
		}
		if k, ok := c.consts[n.Name]; ok {
			return c.konst(k), nil
		}
		if v, ok := c.bound[n.Name]; ok {
			return sv{Val: v}, nil
		}
		if v, ok := c.vars[n.Name]; ok {
			return c.deref(sv{Val: v}, n.Name)
		}
		if strings.HasPrefix(n.Name, "result") {
			if i, err := strconv.Atoi(n.Name[6:]); err == nil && i < len(c.results) {
				return sv{Val: c.results[i]}, nil
			}
		}
		for i, rn := range c.resName {
			if rn == n.Name && i < len(c.results) {
				return sv{Val: c.results[i]}, nil
			}
		}
		if t, ok := c.extra[n.Name]; ok {
			return c.mk(tInt, t), nil
		}
		if c.pkg != nil {
			if o := c.pkg.Scope().Lookup(n.Name); o != nil {
				switch ob := o.(type) {
				case *types.Const:
					if b, ok := ob.Type().Underlying().(*types.Basic); ok && b.Info()&types.IsUntyped != 0 {
						return c.konst(ob.Val()), nil
					}
					s, ok := e.sc.constVal(ob.Val(), ob.Type())
					if ok {
						return c.mk(ob.Type(), s), nil
					}
				case *types.Var:
					key := "G|" + ob.Pkg().Path() + "." + ob.Name()
					a := &Addr{Kind: ALocal, Key: key, Root: ob.Type(), T: ob.Type()}
					return c.mk(ob.Type(), e.rootLoad(c.st, a)), nil
				}
			}
		}
		return sv{}, c.errf("unknown identifier %q", n.Name)

	case *ast.SelectorExpr:
		// package-qualified constant?
		if id, ok := n.X.(*ast.Ident); ok && c.pkg != nil {
			if _, isVar := c.vars[id.Name]; !isVar {
				if _, isB := c.bound[id.Name]; !isB {
					for _, imp := range c.pkg.Imports() {
						if imp.Name() == id.Name {
							if o := imp.Scope().Lookup(n.Sel.Name); o != nil {
								if k, ok := o.(*types.Const); ok {
									if b, ok := k.Type().Underlying().(*types.Basic); ok && b.Info()&types.IsUntyped != 0 {
										return c.konst(k.Val()), nil
									}
									s, _ := e.sc.constVal(k.Val(), k.Type())
									return c.mk(k.Type(), s), nil
								}
								if gv, ok := o.(*types.Var); ok {
									// package-level variable of an imported package (e.g. context.Canceled)
									key := "G|" + gv.Pkg().Path() + "." + gv.Name()
									a := &Addr{Kind: ALocal, Key: key, Root: gv.Type(), T: gv.Type()}
									return c.mk(gv.Type(), e.rootLoad(c.st, a)), nil
								}
							}
						}
					}
				}
			}
		}
		xv, err := c.eval(n.X)
		if err != nil {
			return sv{}, err
		}
		return c.field(xv, n.Sel.Name)

	case *ast.StarExpr:
		xv, err := c.eval(n.X)
		if err != nil {
			return sv{}, err
		}
		if _, ok := xv.T.Underlying().(*types.Pointer); !ok {
			return sv{}, c.errf("deref of non-pointer")
		}
		lv := e.specLoad(c.st, xv.Val)
		if a := e.addrOf(c.st, xv.Val); a != nil {
			c.assumeLoadedWF(lv, a.Key)
		}
		return sv{Val: lv}, nil

	case *ast.IndexExpr:
		xv, err := c.eval(n.X)
		if err != nil {
			return sv{}, err
		}
		iv, err := c.eval(n.Index)
		if err != nil {
			return sv{}, err
		}
		return c.index(xv, iv)

	case *ast.SliceExpr:
		xv, err := c.eval(n.X)
		if err != nil {
			return sv{}, err
		}
		return c.slice(xv, n)

	case *ast.UnaryExpr:
		xv, err := c.eval(n.X)
		if err != nil {
			return sv{}, err
		}
		switch n.Op {
		case token.NOT:
			return c.mk(tBool, not(xv.S)), nil
		case token.SUB:
			if xv.c != nil {
				return c.konst(constant.UnaryOp(token.SUB, xv.c, 0)), nil
			}
			if e.mode == ModeBV {
				return c.mk(xv.T, fmt.Sprintf("(bvneg %s)", xv.S)), nil
			}
			return c.mk(xv.T, fmt.Sprintf("(- %s)", xv.S)), nil
		case token.XOR:
			if xv.c != nil {
				return sv{}, c.errf("^ on untyped constant")
			}
			return c.mk(xv.T, fmt.Sprintf("(bvnot %s)", xv.S)), nil
		case token.ADD:
			return xv, nil
		}

	case *ast.BinaryExpr:
		return c.binary(n)

	case *ast.CallExpr:
		return c.call(n)
	}
	return sv{}, c.errf("unsupported expression %T", x)
}

// deref: variables bound to local cells are read through.
func (c *specCtx) deref(v sv, name string) (sv, error) {
	return v, nil
}

func (e *Exec) specLoad(st *State, p Val) Val {
	pt := p.T.Underlying().(*types.Pointer)
	el := pt.Elem()
	a := e.addrOf(st, p)
	if a == nil {
		u := el.Underlying().(*types.Struct)
		var parts []string
		for i := 0; i < u.NumFields(); i++ {
			k, srt := e.heapKey(el, i)
			parts = append(parts, fmt.Sprintf("(select %s %s)", e.memGet(st, k, srt), p.S))
		}
		if len(parts) == 0 {
			parts = append(parts, "false")
		}
		e.sc.sortOf(el)
		return Val{T: el, S: fmt.Sprintf("(mk.%s %s)", sanitize(structKey(el)), strings.Join(parts, " "))}
	}
	return Val{T: el, S: e.project(e.rootLoad(st, a), a.Steps)}
}

func (c *specCtx) field(xv sv, name string) (sv, error) {
	e := c.e
	t := xv.T
	if pt, ok := t.Underlying().(*types.Pointer); ok {
		stt := pt.Elem()
		u, ok := stt.Underlying().(*types.Struct)
		if !ok {
			return sv{}, c.errf("selector .%s on pointer to non-struct %v", name, stt)
		}
		for i := 0; i < u.NumFields(); i++ {
			if u.Field(i).Name() == name {
				if xv.A != nil {
					na := *xv.A
					na.Steps = append(append([]step(nil), xv.A.Steps...), step{field: i, st: stt})
					return c.mk(u.Field(i).Type(), e.project(e.rootLoad(c.st, &na), na.Steps)), nil
				}
				k, srt := e.heapKey(stt, i)
				fvv := c.mk(u.Field(i).Type(), fmt.Sprintf("(select %s %s)", e.memGet(c.st, k, srt), xv.S))
				c.assumeLoadedWF(fvv.Val, k)
				return fvv, nil
			}
		}
		// promoted through embedded struct value
		for i := 0; i < u.NumFields(); i++ {
			if u.Field(i).Embedded() {
				if _, ok := u.Field(i).Type().Underlying().(*types.Struct); ok {
					k, srt := e.heapKey(stt, i)
					inner := c.mk(u.Field(i).Type(), fmt.Sprintf("(select %s %s)", e.memGet(c.st, k, srt), xv.S))
					if r, err := c.field(inner, name); err == nil {
						return r, nil
					}
				}
			}
		}
		return sv{}, c.errf("no field %s in %v", name, stt)
	}
	if u, ok := t.Underlying().(*types.Struct); ok {
		e.sc.sortOf(t)
		for i := 0; i < u.NumFields(); i++ {
			if u.Field(i).Name() == name {
				return c.mk(u.Field(i).Type(), fmt.Sprintf("(%s %s)", fieldSel(structKey(t), i, name), xv.S)), nil
			}
		}
		for i := 0; i < u.NumFields(); i++ {
			if u.Field(i).Embedded() {
				inner := c.mk(u.Field(i).Type(), fmt.Sprintf("(%s %s)", fieldSel(structKey(t), i, u.Field(i).Name()), xv.S))
				if r, err := c.field(inner, name); err == nil {
					return r, nil
				}
			}
		}
		return sv{}, c.errf("no field %s in %v", name, t)
	}
	return sv{}, c.errf("selector .%s on %v", name, t)
}

// assumeLoadedWF: a value read from the heap in a contract expression satisfies the
// representation invariant of its type (the same fact Exec.load assumes for program loads).
func (c *specCtx) assumeLoadedWF(v Val, key string) {
	e := c.e
	if c.st == nil || !needsWF(v.T, e.mode) {
		return
	}
	if strings.Contains(v.S, "q.") {
		// a load under quantifiers: the representation invariant holds for every value of the
		// bound variables; asserted as a separate (instantiable) quantified fact
		fk := "wflq:" + v.S
		if e.sc.funs[fk] || len(c.qvars) == 0 {
			return
		}
		e.sc.funs[fk] = true
		f := e.wfB(c.st, v, e.refBound(c.st, key))
		if f == "true" {
			return
		}
		for i := len(c.qvars) - 1; i >= 0; i-- {
			qv := c.qvars[i]
			if substSym(f, qv[0], "") != f {
				f = fmt.Sprintf("(forall ((%s %s)) %s)", qv[0], qv[1], f)
			}
		}
		if strings.Contains(f, "q.") && !strings.HasPrefix(f, "(forall") {
			return
		}
		e.sc.assert(imp(c.st.pc, f))
		return
	}
	fk := "wfl:" + v.S
	if e.sc.funs[fk] {
		return
	}
	e.sc.funs[fk] = true
	if f := e.wfB(c.st, v, e.refBound(c.st, key)); f != "true" {
		e.sc.assert(imp(c.st.pc, f))
	}
}

func (c *specCtx) toIdx(v sv) (string, error) {
	if v.c != nil {
		x, err := c.as(v, tInt)
		if err != nil {
			return "", err
		}
		return x.S, nil
	}
	if !isIntType(v.T) {
		return "", c.errf("index of type %v", v.T)
	}
	return c.e.toIdx(c.st, v.Val), nil
}

func (c *specCtx) index(xv, iv sv) (sv, error) {
	e := c.e
	switch u := xv.T.Underlying().(type) {
	case *types.Slice:
		i, err := c.toIdx(iv)
		if err != nil {
			return sv{}, err
		}
		e.sc.noteIdx(i, e.sc.idx())
		k, srt := e.elemKey(u.Elem())
		m := e.memGet(c.st, k, srt)
		ev := c.mk(u.Elem(), fmt.Sprintf("(select (select %s (s-base %s)) %s)", m, xv.S, e.add("(s-off "+xv.S+")", i)))
		c.assumeLoadedWF(ev.Val, k)
		return ev, nil
	case *types.Array:
		i, err := c.toIdx(iv)
		if err != nil {
			return sv{}, err
		}
		return c.mk(u.Elem(), fmt.Sprintf("(select %s %s)", xv.S, i)), nil
	case *types.Basic:
		if isString(xv.T) {
			i, err := c.toIdx(iv)
			if err != nil {
				return sv{}, err
			}
			return c.mk(types.Typ[types.Uint8], fmt.Sprintf("(select (str-arr %s) %s)", xv.S, e.add("(str-off "+xv.S+")", i))), nil
		}
	case *types.Map:
		kv, err := c.coerce(iv, u.Key())
		if err != nil {
			return sv{}, err
		}
		dom, val := e.mapRead(c.st, u, xv.S, kv.S)
		mv := c.mk(u.Elem(), ite(dom, val, e.sc.zero(u.Elem())))
		_, _, vk, _ := e.mapKeys(u)
		c.assumeLoadedWF(mv.Val, vk)
		return mv, nil
	case *types.Pointer:
		if arr, ok := u.Elem().Underlying().(*types.Array); ok {
			i, err := c.toIdx(iv)
			if err != nil {
				return sv{}, err
			}
			av := e.specLoad(c.st, xv.Val)
			return c.mk(arr.Elem(), fmt.Sprintf("(select %s %s)", av.S, i)), nil
		}
	}
	return sv{}, c.errf("cannot index %v", xv.T)
}

func (c *specCtx) slice(xv sv, n *ast.SliceExpr) (sv, error) {
	e := c.e
	get := func(x ast.Expr, def string) (string, error) {
		if x == nil {
			return def, nil
		}
		v, err := c.eval(x)
		if err != nil {
			return "", err
		}
		return c.toIdx(v)
	}
	z := e.sc.idxLit(0)
	switch xv.T.Underlying().(type) {
	case *types.Slice:
		lo, err := get(n.Low, z)
		if err != nil {
			return sv{}, err
		}
		hi, err := get(n.High, "(s-len "+xv.S+")")
		if err != nil {
			return sv{}, err
		}
		return c.mk(xv.T, fmt.Sprintf("(mk-slice (s-base %s) %s %s %s)", xv.S, e.add("(s-off "+xv.S+")", lo), e.sub(hi, lo), e.sub("(s-cap "+xv.S+")", lo))), nil
	case *types.Basic:
		lo, err := get(n.Low, z)
		if err != nil {
			return sv{}, err
		}
		hi, err := get(n.High, "(str-len "+xv.S+")")
		if err != nil {
			return sv{}, err
		}
		return c.mk(xv.T, fmt.Sprintf("(mk-str (str-arr %s) %s %s)", xv.S, e.add("(str-off "+xv.S+")", lo), e.sub(hi, lo))), nil
	}
	return sv{}, c.errf("cannot slice %v", xv.T)
}

// coerce adapts v to type t (constants, nil, lenient integer widening).
func (c *specCtx) coerce(v sv, t types.Type) (sv, error) {
	e := c.e
	if v.c != nil {
		return c.as(v, t)
	}
	if b, ok := v.T.(*types.Basic); ok && b.Kind() == types.UntypedNil {
		return c.mk(t, e.sc.zero(t)), nil
	}
	if isIntType(v.T) && isIntType(t) && e.mode == ModeBV {
		fw, fs, _ := intWidth(v.T.Underlying().(*types.Basic))
		tw, _, _ := intWidth(t.Underlying().(*types.Basic))
		if fw < tw {
			if fs {
				return c.mk(t, fmt.Sprintf("((_ sign_extend %d) %s)", tw-fw, v.S)), nil
			}
			return c.mk(t, fmt.Sprintf("((_ zero_extend %d) %s)", tw-fw, v.S)), nil
		}
		if fw > tw {
			return sv{}, c.errf("implicit narrowing %v -> %v", v.T, t)
		}
	}
	return sv{Val: Val{T: t, S: v.S, A: v.A}}, nil
}

func (c *specCtx) unify(a, b sv) (sv, sv, error) {
	var err error
	switch {
	case a.c != nil && b.c != nil:
		return a, b, nil
	case a.c != nil:
		a, err = c.as(a, b.T)
		return a, b, err
	case b.c != nil:
		b, err = c.as(b, a.T)
		return a, b, err
	}
	if bb, ok := a.T.(*types.Basic); ok && bb.Kind() == types.UntypedNil {
		a, err = c.coerce(a, b.T)
		return a, b, err
	}
	if bb, ok := b.T.(*types.Basic); ok && bb.Kind() == types.UntypedNil {
		b, err = c.coerce(b, a.T)
		return a, b, err
	}
	if isIntType(a.T) && isIntType(b.T) && c.e.mode == ModeBV {
		aw, _, _ := intWidth(a.T.Underlying().(*types.Basic))
		bw, _, _ := intWidth(b.T.Underlying().(*types.Basic))
		if aw < bw {
			a, err = c.coerce(a, b.T)
		} else if bw < aw {
			b, err = c.coerce(b, a.T)
		}
	}
	return a, b, err
}

func (c *specCtx) binary(n *ast.BinaryExpr) (sv, error) {
	e := c.e
	a, err := c.eval(n.X)
	if err != nil {
		return sv{}, err
	}
	b, err := c.eval(n.Y)
	if err != nil {
		return sv{}, err
	}
	switch n.Op {
	case token.LAND:
		return c.mk(tBool, and(a.S, b.S)), nil
	case token.LOR:
		return c.mk(tBool, or(a.S, b.S)), nil
	}
	if a.c != nil && b.c != nil {
		switch n.Op {
		case token.EQL, token.NEQ, token.LSS, token.LEQ, token.GTR, token.GEQ:
			if constant.Compare(a.c, n.Op, b.c) {
				return c.mk(tBool, "true"), nil
			}
			return c.mk(tBool, "false"), nil
		case token.SHL, token.SHR:
			s, _ := constant.Uint64Val(b.c)
			return c.konst(constant.Shift(a.c, n.Op, uint(s))), nil
		case token.QUO:
			return c.konst(constant.BinaryOp(a.c, token.QUO_ASSIGN, b.c)), nil
		}
		return c.konst(constant.BinaryOp(a.c, n.Op, b.c)), nil
	}
	if n.Op == token.SHL || n.Op == token.SHR {
		// shift: count adapts to the left operand
		if a.c != nil {
			a, err = c.as(a, tInt)
			if err != nil {
				return sv{}, err
			}
		}
		w, signed, _ := intWidth(a.T.Underlying().(*types.Basic))
		var cnt string
		if b.c != nil {
			bb, err := c.as(b, a.T)
			if err != nil {
				return sv{}, err
			}
			cnt = bb.S
		} else {
			bw, _, _ := intWidth(b.T.Underlying().(*types.Basic))
			switch {
			case bw == w:
				cnt = b.S
			case bw < w:
				cnt = fmt.Sprintf("((_ zero_extend %d) %s)", w-bw, b.S)
			default:
				wl := bvLit(big.NewInt(int64(w)), bw)
				cnt = fmt.Sprintf("((_ extract %d 0) (ite (bvuge %s %s) %s %s))", w-1, b.S, wl, wl, b.S)
			}
		}
		if e.mode != ModeBV {
			return sv{}, c.errf("shift in int mode")
		}
		op := "bvshl"
		if n.Op == token.SHR {
			op = "bvlshr"
			if signed {
				op = "bvashr"
			}
		}
		return c.mk(a.T, fmt.Sprintf("(%s %s %s)", op, a.S, cnt)), nil
	}
	a, b, err = c.unify(a, b)
	if err != nil {
		return sv{}, err
	}
	t := a.T
	switch n.Op {
	case token.EQL, token.NEQ:
		var term string
		switch {
		case a.A != nil || b.A != nil:
			// a derived address (&x.f, &s[i]) is never nil
			if (a.A != nil && b.A == nil && b.S == "0") || (b.A != nil && a.A == nil && a.S == "0") {
				term = "false"
			} else {
				return sv{}, c.errf("comparison of derived addresses is not supported")
			}
		case isString(t):
			if cv, ok := e.sc.strConsts[b.S]; ok {
				term = e.strEqConst(a.S, cv)
			} else if cv, ok := e.sc.strConsts[a.S]; ok {
				term = e.strEqConst(b.S, cv)
			} else {
				term = e.strEqTerm(a.S, b.S)
			}
		case isSliceT(t):
			// only comparison with nil is meaningful
			if b.S == e.sc.zero(t) {
				term = fmt.Sprintf("(= (s-base %s) 0)", a.S)
			} else if a.S == e.sc.zero(t) {
				term = fmt.Sprintf("(= (s-base %s) 0)", b.S)
			} else {
				term = eq(a.S, b.S)
			}
		case isIfaceT(t):
			if b.S == "(mk-iface 0 0)" {
				term = fmt.Sprintf("(= (i-tag %s) 0)", a.S)
			} else if a.S == "(mk-iface 0 0)" {
				term = fmt.Sprintf("(= (i-tag %s) 0)", b.S)
			} else {
				term = eq(a.S, b.S)
			}
		default:
			term = eq(a.S, b.S)
		}
		if n.Op == token.NEQ {
			term = not(term)
		}
		return c.mk(tBool, term), nil
	}
	if isBool(t) {
		return sv{}, c.errf("operator %v on bool", n.Op)
	}
	if !isIntType(t) {
		return sv{}, c.errf("operator %v on %v", n.Op, t)
	}
	_, signed, _ := intWidth(t.Underlying().(*types.Basic))
	bvop := func(s, u string) string {
		if signed {
			return fmt.Sprintf("(%s %s %s)", s, a.S, b.S)
		}
		return fmt.Sprintf("(%s %s %s)", u, a.S, b.S)
	}
	if e.mode == ModeBV {
		switch n.Op {
		case token.ADD:
			return c.mk(t, fmt.Sprintf("(bvadd %s %s)", a.S, b.S)), nil
		case token.SUB:
			return c.mk(t, fmt.Sprintf("(bvsub %s %s)", a.S, b.S)), nil
		case token.MUL:
			return c.mk(t, fmt.Sprintf("(bvmul %s %s)", a.S, b.S)), nil
		case token.QUO:
			return c.mk(t, bvop("bvsdiv", "bvudiv")), nil
		case token.REM:
			if signed && b.c == nil && c.e != nil && c.e.abstractFlag("abstract_rem", t) && c.e.sc.sortOf(t) == "(_ BitVec 64)" {
				return c.mk(t, c.e.sremAbstract(a.S, b.S)), nil
			}
			return c.mk(t, bvop("bvsrem", "bvurem")), nil
		case token.AND:
			return c.mk(t, fmt.Sprintf("(bvand %s %s)", a.S, b.S)), nil
		case token.OR:
			return c.mk(t, fmt.Sprintf("(bvor %s %s)", a.S, b.S)), nil
		case token.XOR:
			return c.mk(t, fmt.Sprintf("(bvxor %s %s)", a.S, b.S)), nil
		case token.AND_NOT:
			return c.mk(t, fmt.Sprintf("(bvand %s (bvnot %s))", a.S, b.S)), nil
		case token.LSS:
			return c.mk(tBool, bvop("bvslt", "bvult")), nil
		case token.LEQ:
			return c.mk(tBool, bvop("bvsle", "bvule")), nil
		case token.GTR:
			return c.mk(tBool, bvop("bvsgt", "bvugt")), nil
		case token.GEQ:
			return c.mk(tBool, bvop("bvsge", "bvuge")), nil
		}
	} else {
		switch n.Op {
		case token.ADD:
			return c.mk(t, fmt.Sprintf("(+ %s %s)", a.S, b.S)), nil
		case token.SUB:
			return c.mk(t, fmt.Sprintf("(- %s %s)", a.S, b.S)), nil
		case token.MUL:
			return c.mk(t, fmt.Sprintf("(* %s %s)", a.S, b.S)), nil
		case token.QUO:
			return c.mk(t, fmt.Sprintf("(ite (>= %s 0) (div %s %s) (- (div (- %s) %s)))", a.S, a.S, b.S, a.S, b.S)), nil
		case token.REM:
			q := fmt.Sprintf("(ite (>= %s 0) (div %s %s) (- (div (- %s) %s)))", a.S, a.S, b.S, a.S, b.S)
			return c.mk(t, fmt.Sprintf("(- %s (* %s %s))", a.S, b.S, q)), nil
		case token.LSS:
			return c.mk(tBool, fmt.Sprintf("(< %s %s)", a.S, b.S)), nil
		case token.LEQ:
			return c.mk(tBool, fmt.Sprintf("(<= %s %s)", a.S, b.S)), nil
		case token.GTR:
			return c.mk(tBool, fmt.Sprintf("(> %s %s)", a.S, b.S)), nil
		case token.GEQ:
			return c.mk(tBool, fmt.Sprintf("(>= %s %s)", a.S, b.S)), nil
		}
	}
	return sv{}, c.errf("unsupported operator %v", n.Op)
}

func isSliceT(t types.Type) bool { _, ok := t.Underlying().(*types.Slice); return ok }
func isIfaceT(t types.Type) bool { _, ok := t.Underlying().(*types.Interface); return ok }

func (c *specCtx) call(n *ast.CallExpr) (sv, error) {
	e := c.e
	// conversion?
	if t := c.lookupType(n.Fun); t != nil && len(n.Args) == 1 {
		if id, ok := n.Fun.(*ast.Ident); !ok || (c.vars[id.Name].T == nil && c.bound[id.Name].T == nil) {
			v, err := c.eval(n.Args[0])
			if err != nil {
				return sv{}, err
			}
			return c.convert(v, t)
		}
	}
	id, ok := n.Fun.(*ast.Ident)
	if !ok {
		return sv{}, c.errf("unsupported call %v", exprString(n.Fun))
	}
	args := n.Args
	switch id.Name {
	case "old":
		if c.old == nil {
			return sv{}, c.errf("old() not available here")
		}
		cc := c.clone()
		cc.st = c.old
		return cc.eval(args[0])
	case "prev":
		if c.prevSt == nil {
			return sv{}, c.errf("prev() is only available in loop step clauses")
		}
		cc := c.clone()
		cc.st = c.prevSt
		cc.vars = map[string]Val{}
		for k, v := range c.vars {
			cc.vars[k] = v
		}
		for k, v := range c.e.ghostVars(c.prevSt) {
			cc.vars[k] = v
		}
		for k, v := range c.prevVar {
			cc.vars[k] = v
		}
		return cc.eval(args[0])
	case "imp":
		a, err := c.eval(args[0])
		if err != nil {
			return sv{}, err
		}
		b, err := c.eval(args[1])
		if err != nil {
			return sv{}, err
		}
		return c.mk(tBool, imp(a.S, b.S)), nil
	case "same":
		// structural (SMT) equality: stronger than Go's == on strings, quantifier-free
		a, err := c.eval(args[0])
		if err != nil {
			return sv{}, err
		}
		b, err := c.eval(args[1])
		if err != nil {
			return sv{}, err
		}
		a, b, err = c.unify(a, b)
		if err != nil {
			return sv{}, err
		}
		return c.mk(tBool, eq(a.S, b.S)), nil
	case "iff":
		a, err := c.eval(args[0])
		if err != nil {
			return sv{}, err
		}
		b, err := c.eval(args[1])
		if err != nil {
			return sv{}, err
		}
		return c.mk(tBool, eq(a.S, b.S)), nil
	case "ite":
		a, err := c.eval(args[0])
		if err != nil {
			return sv{}, err
		}
		b, err := c.eval(args[1])
		if err != nil {
			return sv{}, err
		}
		d, err := c.eval(args[2])
		if err != nil {
			return sv{}, err
		}
		b, d, err = c.unify(b, d)
		if err != nil {
			return sv{}, err
		}
		if b.c != nil {
			b, _ = c.def(b)
			d, _ = c.def(d)
		}
		return c.mk(b.T, ite(a.S, b.S, d.S)), nil
	case "forall", "exists":
		return c.quant(id.Name, args)
	case "all", "any":
		// all(i, lo, hi, body): finite conjunction over the constants lo..hi-1 (expanded here)
		if len(args) != 4 {
			return sv{}, c.errf("%s(i, lo, hi, body)", id.Name)
		}
		iv, ok := args[0].(*ast.Ident)
		if !ok {
			return sv{}, c.errf("%s: bad variable", id.Name)
		}
		lo, err := c.eval(args[1])
		if err != nil {
			return sv{}, err
		}
		hi, err := c.eval(args[2])
		if err != nil {
			return sv{}, err
		}
		if lo.c == nil || hi.c == nil {
			return sv{}, c.errf("%s: bounds must be constants", id.Name)
		}
		l, _ := constant.Int64Val(lo.c)
		h, _ := constant.Int64Val(hi.c)
		var parts []string
		for k := l; k < h; k++ {
			cc := c.clone()
			cc.bound[iv.Name] = Val{T: tInt, S: e.sc.idxLit(k)}
			cc.consts = map[string]constant.Value{}
			for n, v := range c.consts {
				cc.consts[n] = v
			}
			cc.consts[iv.Name] = constant.MakeInt64(k)
			b, err := cc.eval(args[3])
			if err != nil {
				return sv{}, err
			}
			parts = append(parts, b.S)
		}
		if id.Name == "all" {
			return c.mk(tBool, and(parts...)), nil
		}
		return c.mk(tBool, or(parts...)), nil
	case "len", "cap":
		v, err := c.eval(args[0])
		if err != nil {
			return sv{}, err
		}
		switch u := v.T.Underlying().(type) {
		case *types.Slice:
			// type invariant of slice values (true of every slice value a program can hold)
			if !strings.Contains(v.S, "q.") && c.st != nil {
				// ... on the path it exists on: the term may be a slice constructed under a path
				// condition (make([]T, n) after n >= 0 was established); asserting its invariant
				// globally would make the other paths (n < 0) infeasible
				key := "wf:" + c.st.pc + ":" + v.S
				if !e.sc.funs[key] {
					e.sc.funs[key] = true
					e.sc.assert(imp(c.st.pc, and(e.le(e.sc.idxLit(0), "(s-len "+v.S+")"), e.le("(s-len "+v.S+")", "(s-cap "+v.S+")"), e.le("(s-cap "+v.S+")", e.sc.idxLit(maxLen)))))
				}
			}
			if id.Name == "len" {
				return c.mk(tInt, "(s-len "+v.S+")"), nil
			}
			return c.mk(tInt, "(s-cap "+v.S+")"), nil
		case *types.Array:
			return c.mk(tInt, e.sc.idxLit(u.Len())), nil
		case *types.Map:
			if !strings.Contains(v.S, "q.") {
				e.mapLenFacts(c.st, v.S) // a map has at least 0 entries, the nil map none
			}
			return c.mk(tInt, e.mapLen(c.st, v.S)), nil
		case *types.Basic:
			if isString(v.T) {
				return c.mk(tInt, "(str-len "+v.S+")"), nil
			}
		case *types.Pointer:
			if arr, ok := u.Elem().Underlying().(*types.Array); ok {
				return c.mk(tInt, e.sc.idxLit(arr.Len())), nil
			}
		}
		return sv{}, c.errf("len of %v", v.T)
	case "panics", "soft_panic":
		if c.soft == "" {
			return sv{}, c.errf("%s() not available here", id.Name)
		}
		return c.mk(tBool, c.soft), nil
	case "fresh":
		// fresh(x): the reference was allocated during the call
		if c.old == nil {
			return sv{}, c.errf("fresh() needs an old state")
		}
		v, err := c.eval(args[0])
		if err != nil {
			return sv{}, err
		}
		r := v.S
		if isSliceT(v.T) {
			r = "(s-base " + v.S + ")"
		}
		return c.mk(tBool, fmt.Sprintf("(>= %s %s)", r, e.top(c.old))), nil
	case "base":
		v, err := c.eval(args[0])
		if err != nil {
			return sv{}, err
		}
		return c.mk(types.Typ[types.UnsafePointer], "(s-base "+v.S+")"), nil
	case "dyn":
		v, err := c.eval(args[0])
		if err != nil {
			return sv{}, err
		}
		return c.mk(types.Typ[types.UnsafePointer], "(i-tag "+v.S+")"), nil
	case "time_unix", "time_nsec", "time_iszero":
		// observers of a time.Time value (see the library model of Unix/Nanosecond/IsZero)
		v, err := c.eval(args[0])
		if err != nil {
			return sv{}, err
		}
		if v.T == nil || types.TypeString(v.T, nil) != "time.Time" {
			return sv{}, c.errf("%s: not a time.Time", id.Name)
		}
		e.timeFuns(v.T)
		switch id.Name {
		case "time_unix":
			return c.mk(types.Typ[types.Int64], fmt.Sprintf("(time.unix %s)", v.S)), nil
		case "time_nsec":
			return c.mk(tInt, fmt.Sprintf("(time.nsec %s)", v.S)), nil
		}
		return c.mk(tBool, fmt.Sprintf("(time.iszero %s)", v.S)), nil
	case "nth":
		// nth(callee, k): the first result of the k-th (1-based) counted call of callee made by the
		// function under verification (ghost array filled by count_calls)
		nm, ok := args[0].(*ast.Ident)
		if !ok || len(args) != 2 {
			return sv{}, c.errf("nth(callee, k)")
		}
		g := nm.Name + "_rets"
		t, have := e.ghostTypes[g]
		if !have {
			return sv{}, c.errf("nth: %s is not counted (count_calls) or returns nothing", nm.Name)
		}
		k, err := c.eval(args[1])
		if err != nil {
			return sv{}, err
		}
		if k, err = c.coerce(k, tInt); err != nil {
			return sv{}, err
		}
		arr := e.ghostGet(c.st, g, t, e.sc.zero(t))
		return c.mk(t.(*types.Array).Elem(), fmt.Sprintf("(select %s %s)", arr.S, k.S)), nil
	case "chancap":
		// chancap(ch): the capacity the channel was made with
		v, err := c.eval(args[0])
		if err != nil {
			return sv{}, err
		}
		if _, ok := v.T.Underlying().(*types.Chan); !ok {
			return sv{}, c.errf("chancap: not a channel")
		}
		e.chanCapFun()
		e.libUsed["ghost:chancap (capacity given to make(chan); channels received from elsewhere have an unknown capacity)"] = true
		return c.mk(tInt, fmt.Sprintf("(chan.cap %s)", v.S)), nil
	case "held":
		// held(x.mu): the function under verification holds the mutex field mu of *x (ghost kept by Lock/Unlock)
		sel, ok := args[0].(*ast.SelectorExpr)
		if !ok || len(args) != 1 {
			return sv{}, c.errf("held(x.mutexField)")
		}
		xv, err := c.eval(sel.X)
		if err != nil {
			return sv{}, err
		}
		pt, ok := xv.T.Underlying().(*types.Pointer)
		if !ok {
			return sv{}, c.errf("held: %s is not a pointer to a struct", types.ExprString(sel.X))
		}
		stt, ok := pt.Elem().Underlying().(*types.Struct)
		if !ok {
			return sv{}, c.errf("held: %s is not a pointer to a struct", types.ExprString(sel.X))
		}
		for i := 0; i < stt.NumFields(); i++ {
			if stt.Field(i).Name() == sel.Sel.Name {
				key, _ := e.heapKey(pt.Elem(), i)
				e.libUsed["ghost:held (Lock/Unlock calls of the function under verification only; unknown at entry; callees are assumed to leave it unchanged; other goroutines are not modelled)"] = true
				m := e.memGet(c.st, "ghost|held:"+key, "(Array Int Bool)")
				return c.mk(tBool, fmt.Sprintf("(select %s %s)", m, xv.S)), nil
			}
		}
		return sv{}, c.errf("held: no field %s", sel.Sel.Name)
	case "sent", "sentval", "recvd", "closed", "selrecvd":
		// ghost record of channel sends performed by the function under verification
		v, err := c.eval(args[0])
		if err != nil {
			return sv{}, err
		}
		ct, ok := v.T.Underlying().(*types.Chan)
		if !ok {
			return sv{}, c.errf("%s: not a channel", id.Name)
		}
		if id.Name == "sent" {
			return c.mk(tInt, fmt.Sprintf("(select %s %s)", e.sendCount(c.st), v.S)), nil
		}
		if id.Name == "selrecvd" {
			return c.mk(tInt, fmt.Sprintf("(select %s %s)", e.selRecvCount(c.st), v.S)), nil
		}
		if id.Name == "closed" {
			return c.mk(tBool, e.lt(e.sc.idxLit(0), fmt.Sprintf("(select %s %s)", e.closeCount(c.st), v.S))), nil
		}
		if id.Name == "recvd" {
			return c.mk(tInt, fmt.Sprintf("(select %s %s)", e.recvCount(c.st), v.S)), nil
		}
		return c.mk(ct.Elem(), fmt.Sprintf("(select %s %s)", e.sendVals(c.st, ct.Elem()), v.S)), nil
	case "max", "min":
		a, err := c.eval(args[0])
		if err != nil {
			return sv{}, err
		}
		b, err := c.eval(args[1])
		if err != nil {
			return sv{}, err
		}
		a, b, err = c.unify(a, b)
		if err != nil {
			return sv{}, err
		}
		if a.c != nil {
			a, _ = c.def(a)
			b, _ = c.def(b)
		}
		var lt string
		if e.mode == ModeInt {
			lt = fmt.Sprintf("(< %s %s)", a.S, b.S)
		} else {
			lt = fmt.Sprintf("(bvslt %s %s)", a.S, b.S)
		}
		if id.Name == "max" {
			return c.mk(a.T, ite(lt, b.S, a.S)), nil
		}
		return c.mk(a.T, ite(lt, a.S, b.S)), nil
	case "bits":
		// bit pattern of a float (floats are opaque bit patterns, DESIGN §2.6.3)
		v, err := c.eval(args[0])
		if err != nil {
			return sv{}, err
		}
		if w, ok := isFloat(v.T); ok {
			if w == 32 {
				return c.mk(types.Typ[types.Uint32], v.S), nil
			}
			return c.mk(types.Typ[types.Uint64], v.S), nil
		}
		return sv{}, c.errf("bits() of non-float")
	case "map_unchanged_except":
		// map_unchanged_except(m, k1, ...): every entry of map m other than those of the listed
		// keys is the same as in the old state (present <=> was present, same value)
		if c.old == nil || len(args) < 1 {
			return sv{}, c.errf("map_unchanged_except(m, keys...) needs an old state")
		}
		mn, err := c.eval(args[0])
		if err != nil {
			return sv{}, err
		}
		oc := c.clone()
		oc.st = c.old
		mo, err := oc.eval(args[0])
		if err != nil {
			return sv{}, err
		}
		mt, ok := mn.T.Underlying().(*types.Map)
		if !ok {
			return sv{}, c.errf("map_unchanged_except: not a map")
		}
		e.sc.n++
		q := fmt.Sprintf("q.mk.%d", e.sc.n)
		ks := e.mapKeySort(mt.Key())
		var ne []string
		for _, a := range args[1:] {
			k, err := c.eval(a)
			if err != nil {
				return sv{}, err
			}
			k, err = c.coerce(k, mt.Key())
			if err != nil {
				return sv{}, err
			}
			ne = append(ne, not(eq(q, e.mapKeyTerm(mt.Key(), k.S))))
		}
		dk, dsrt, vk, vsrt := e.mapKeys(mt)
		dn := fmt.Sprintf("(and (not (= %s 0)) (select (select %s %s) %s))", mn.S, e.memGet(c.st, dk, dsrt), mn.S, q)
		do := fmt.Sprintf("(and (not (= %s 0)) (select (select %s %s) %s))", mo.S, e.memGet(c.old, dk, dsrt), mo.S, q)
		vn := fmt.Sprintf("(select (select %s %s) %s)", e.memGet(c.st, vk, vsrt), mn.S, q)
		vo := fmt.Sprintf("(select (select %s %s) %s)", e.memGet(c.old, vk, vsrt), mo.S, q)
		body := imp(and(ne...), and(eq(dn, do), imp(dn, eq(vn, vo))))
		return c.mk(tBool, fmt.Sprintf("(forall ((%s %s)) %s)", q, ks, body)), nil
	case "haskey":
		m, err := c.eval(args[0])
		if err != nil {
			return sv{}, err
		}
		mt, ok := m.T.Underlying().(*types.Map)
		if !ok {
			return sv{}, c.errf("haskey: not a map")
		}
		k, err := c.eval(args[1])
		if err != nil {
			return sv{}, err
		}
		k, err = c.coerce(k, mt.Key())
		if err != nil {
			return sv{}, err
		}
		dom, _ := e.mapRead(c.st, mt, m.S, k.S)
		return c.mk(tBool, dom), nil
	case "nonnilptr":
		// if the dynamic type of the interface value is a pointer type, the pointer is not nil
		v, err := c.eval(args[0])
		if err != nil {
			return sv{}, err
		}
		e.sc.typeTag(types.Typ[types.Int]) // make sure ptrtag is declared
		return c.mk(tBool, fmt.Sprintf("(=> (ptrtag (i-tag %s)) (not (= (i-pay %s) 0)))", v.S, v.S)), nil
	case "typeis":
		// typeis(x, T): dynamic type of interface x is T
		v, err := c.eval(args[0])
		if err != nil {
			return sv{}, err
		}
		t := c.lookupType(args[1])
		if t == nil {
			return sv{}, c.errf("unknown type %s", exprString(args[1]))
		}
		return c.mk(tBool, fmt.Sprintf("(= (i-tag %s) %d)", v.S, e.sc.typeTag(t))), nil
	case "unbox":
		v, err := c.eval(args[0])
		if err != nil {
			return sv{}, err
		}
		t := c.lookupType(args[1])
		if t == nil {
			return sv{}, c.errf("unknown type %s", exprString(args[1]))
		}
		return c.mk(t, e.sc.unbox(t, "(i-pay "+v.S+")")), nil
	case "smt":
		// smt("Sort-as-Go-type", "template with $1 $2", args...) — raw escape hatch
		tl, ok1 := args[0].(*ast.BasicLit)
		bl, ok2 := args[1].(*ast.BasicLit)
		if !ok1 || !ok2 {
			return sv{}, c.errf("smt(type, template, args...)")
		}
		tn, _ := strconv.Unquote(tl.Value)
		tmpl, _ := strconv.Unquote(bl.Value)
		tx, err := parser.ParseExpr(tn)
		if err != nil {
			return sv{}, err
		}
		t := c.lookupType(tx)
		if t == nil {
			return sv{}, c.errf("smt: unknown type %s", tn)
		}
		for i := len(args) - 1; i >= 2; i-- {
			v, err := c.eval(args[i])
			if err != nil {
				return sv{}, err
			}
			v, err = c.def(v)
			if err != nil {
				return sv{}, err
			}
			tmpl = strings.ReplaceAll(tmpl, fmt.Sprintf("$%d", i-1), v.S)
		}
		for _, nm := range specNamesIn(tmpl) {
			e.eng.spec.need(e.sc, nm)
		}
		return c.mk(t, tmpl), nil
	}
	// spec function
	if sf := e.eng.spec.lookup(id.Name, e.mode); sf != nil {
		return c.specCall(sf, args)
	}
	// predicate of the contract files
	if pr := e.eng.contracts.Preds[id.Name]; pr != nil {
		if len(args) != len(pr.Params) {
			return sv{}, c.errf("predicate %s expects %d arguments", pr.Name, len(pr.Params))
		}
		cc := c.clone()
		for i, pn := range pr.Params {
			v, err := c.eval(args[i])
			if err != nil {
				return sv{}, err
			}
			if v.c != nil {
				// an untyped constant argument is an int (write a conversion for anything else)
				if v, err = c.coerce(v, tInt); err != nil {
					return sv{}, err
				}
			}
			cc.bound[pn] = v.Val
		}
		x, err := parser.ParseExpr(rewriteImp(pr.Body))
		if err != nil {
			return sv{}, c.errf("predicate %s: %v", pr.Name, err)
		}
		return cc.eval(x)
	}
	return sv{}, c.errf("unknown function %q", id.Name)
}

func (c *specCtx) quant(kind string, args []ast.Expr) (sv, error) {
	e := c.e
	if len(args) < 2 {
		return sv{}, c.errf("%s(var, [range,] body)", kind)
	}
	var name string
	var t types.Type = tInt
	switch v := args[0].(type) {
	case *ast.Ident:
		name = v.Name
	case *ast.CallExpr:
		t = c.lookupType(v.Fun)
		if t == nil || len(v.Args) != 1 {
			return sv{}, c.errf("bad quantified variable")
		}
		name = v.Args[0].(*ast.Ident).Name
	default:
		return sv{}, c.errf("bad quantified variable")
	}
	cc := c.clone()
	e.sc.n++
	vn := fmt.Sprintf("q.%s.%d", sanitize(name), e.sc.n)
	cc.bound[name] = Val{T: t, S: vn}
	cc.qvars = append(append([][2]string(nil), c.qvars...), [2]string{vn, e.sc.sortOf(t)})
	var rng, body sv
	var err error
	if len(args) >= 3 {
		rng, err = cc.eval(args[1])
		if err != nil {
			return sv{}, err
		}
		body, err = cc.eval(args[2])
	} else {
		rng = c.mk(tBool, "true")
		body, err = cc.eval(args[1])
	}
	if err != nil {
		return sv{}, err
	}
	pat := ""
	if len(args) >= 4 {
		p, err := cc.eval(args[3])
		if err != nil {
			return sv{}, err
		}
		pat = p.S
	}
	srt := e.sc.sortOf(t)
	var inner string
	if kind == "forall" {
		inner = imp(rng.S, body.S)
	} else {
		inner = and(rng.S, body.S)
	}
	if e.mode == ModeInt && isIntType(t) {
		// bound variable ranges over the Go type
	}
	if pat != "" {
		inner = fmt.Sprintf("(! %s :pattern (%s))", inner, pat)
	}
	return c.mk(tBool, fmt.Sprintf("(%s ((%s %s)) %s)", kind, vn, srt, inner)), nil
}

func (c *specCtx) convert(v sv, t types.Type) (sv, error) {
	e := c.e
	if v.c != nil {
		return c.as(v, t)
	}
	if isIntType(v.T) && isIntType(t) {
		if e.mode == ModeInt {
			return c.mk(t, v.S), nil
		}
		fw, fs, _ := intWidth(v.T.Underlying().(*types.Basic))
		tw, _, _ := intWidth(t.Underlying().(*types.Basic))
		switch {
		case fw == tw:
			return c.mk(t, v.S), nil
		case tw < fw:
			return c.mk(t, fmt.Sprintf("((_ extract %d 0) %s)", tw-1, v.S)), nil
		case fs:
			return c.mk(t, fmt.Sprintf("((_ sign_extend %d) %s)", tw-fw, v.S)), nil
		default:
			return c.mk(t, fmt.Sprintf("((_ zero_extend %d) %s)", tw-fw, v.S)), nil
		}
	}
	if isString(t) && isSliceT(v.T) {
		k, srt := e.elemKey(types.Typ[types.Uint8])
		m := e.memGet(c.st, k, srt)
		return c.mk(t, fmt.Sprintf("(mk-str (select %s (s-base %s)) (s-off %s) (s-len %s))", m, v.S, v.S, v.S)), nil
	}
	if e.sc.sortOf(v.T) == e.sc.sortOf(t) {
		return sv{Val: Val{T: t, S: v.S, A: v.A}}, nil
	}
	return sv{}, c.errf("unsupported conversion %v -> %v", v.T, t)
}

func exprString(x ast.Expr) string {
	var b strings.Builder
	ast.Fprint(&b, token.NewFileSet(), x, nil)
	if id, ok := x.(*ast.Ident); ok {
		return id.Name
	}
	return fmt.Sprintf("%T", x)
}

// ---------- spec function library ----------

type specFn struct {
	Name   string
	Params []string // Go type names, or "bytes" (array+offset pair), "arr" (array value)
	Ret    string
	Block  string
}

type specBlock struct {
	name string
	text string
	deps []string
	sigs []*specFn
}

type SpecLib struct {
	blocks map[Mode][]*specBlock
	byName map[Mode]map[string]*specBlock
	fns    map[Mode]map[string]*specFn
	axioms map[Mode]map[string]bool
}

var axiomRe = regexp.MustCompile(`^;\s*axiom\s+([A-Za-z_][A-Za-z0-9_.]*)`)

func (l *SpecLib) isAxiom(name string, m Mode) bool { return l.axioms[m][name] }

var sigRe = regexp.MustCompile(`^;\s*sig\s+([A-Za-z_][A-Za-z0-9_.]*)\(([^)]*)\)\s*(\S+)`)
var symRe = regexp.MustCompile(`[A-Za-z_][A-Za-z0-9_.]*`)

func loadSpecLib(dir string) (*SpecLib, error) {
	lib := &SpecLib{blocks: map[Mode][]*specBlock{}, byName: map[Mode]map[string]*specBlock{}, fns: map[Mode]map[string]*specFn{}, axioms: map[Mode]map[string]bool{}}
	for _, m := range []Mode{ModeBV, ModeInt} {
		lib.byName[m] = map[string]*specBlock{}
		lib.fns[m] = map[string]*specFn{}
		lib.axioms[m] = map[string]bool{}
		path := fmt.Sprintf("%s/%s.smt2", dir, m.String())
		data, err := os.ReadFile(path)
		if err != nil {
			if os.IsNotExist(err) {
				continue
			}
			return nil, err
		}
		var cur *specBlock
		for _, line := range strings.Split(string(data), "\n") {
			if strings.HasPrefix(line, ";; block ") {
				cur = &specBlock{name: strings.TrimSpace(strings.TrimPrefix(line, ";; block "))}
				lib.blocks[m] = append(lib.blocks[m], cur)
				lib.byName[m][cur.name] = cur
				continue
			}
			if cur == nil {
				continue
			}
			if mm := axiomRe.FindStringSubmatch(strings.TrimSpace(line)); mm != nil {
				lib.axioms[m][mm[1]] = true
				continue
			}
			if mm := sigRe.FindStringSubmatch(line); mm != nil {
				f := &specFn{Name: mm[1], Ret: mm[3], Block: cur.name}
				for _, p := range strings.Split(mm[2], ",") {
					p = strings.TrimSpace(p)
					if p != "" {
						f.Params = append(f.Params, p)
					}
				}
				cur.sigs = append(cur.sigs, f)
				lib.fns[m][f.Name] = f
				continue
			}
			if strings.HasPrefix(strings.TrimSpace(line), ";") {
				continue
			}
			cur.text += line + "\n"
		}
		// dependencies: any block name or declared fn name of another block mentioned in the text
		owner := map[string]string{}
		for _, b := range lib.blocks[m] {
			owner[b.name] = b.name
			for _, f := range b.sigs {
				owner[f.Name] = b.name
			}
			for _, mm := range regexp.MustCompile(`\((?:define-fun|define-fun-rec|declare-fun|declare-const)\s+([^\s()]+)`).FindAllStringSubmatch(b.text, -1) {
				owner[mm[1]] = b.name
			}
		}
		for _, b := range lib.blocks[m] {
			seen := map[string]bool{}
			for _, s := range symRe.FindAllString(b.text, -1) {
				if o, ok := owner[s]; ok && o != b.name && !seen[o] {
					seen[o] = true
					b.deps = append(b.deps, o)
				}
			}
		}
		lib.ownerCache(m, owner)
	}
	return lib, nil
}

var specOwners = map[Mode]map[string]string{}

func (l *SpecLib) ownerCache(m Mode, o map[string]string) { specOwners[m] = o }

func (l *SpecLib) lookup(name string, m Mode) *specFn { return l.fns[m][name] }

func specNamesIn(s string) []string { return symRe.FindAllString(s, -1) }

// need makes sure the block defining name has been emitted into the script.
func (l *SpecLib) need(sc *Script, name string) {
	o, ok := specOwners[sc.mode][name]
	if !ok {
		return
	}
	l.needBlock(sc, o)
}

func (l *SpecLib) needBlock(sc *Script, bn string) {
	if sc.declsrt["spec:"+bn] {
		return
	}
	sc.declsrt["spec:"+bn] = true
	b := l.byName[sc.mode][bn]
	if b == nil {
		return
	}
	for _, d := range b.deps {
		l.needBlock(sc, d)
	}
	for _, line := range splitSexprs(b.text) {
		sc.emit(line)
	}
}

// splitSexprs splits text into top-level s-expressions (one script line each).
func splitSexprs(t string) []string {
	var out []string
	d := 0
	start := -1
	for i := 0; i < len(t); i++ {
		switch t[i] {
		case ';':
			for i < len(t) && t[i] != '\n' {
				i++
			}
		case '(':
			if d == 0 {
				start = i
			}
			d++
		case ')':
			d--
			if d == 0 && start >= 0 {
				out = append(out, strings.Join(strings.Fields(t[start:i+1]), " "))
				start = -1
			}
		}
	}
	return out
}

func (c *specCtx) specType(name string) types.Type {
	x, err := parser.ParseExpr(name)
	if err != nil {
		return nil
	}
	return c.lookupType(x)
}

func (c *specCtx) specCall(sf *specFn, args []ast.Expr) (sv, error) {
	e := c.e
	if len(args) != len(sf.Params) {
		return sv{}, c.errf("%s expects %d arguments", sf.Name, len(sf.Params))
	}
	e.eng.spec.needBlock(e.sc, sf.Block)
	var terms []string
	for i, p := range sf.Params {
		v, err := c.eval(args[i])
		if err != nil {
			return sv{}, err
		}
		switch p {
		case "bytes", "slice":
			// (array, offset) view of a sequence
			switch u := v.T.Underlying().(type) {
			case *types.Slice:
				k, srt := e.elemKey(u.Elem())
				m := e.memGet(c.st, k, srt)
				terms = append(terms, fmt.Sprintf("(select %s (s-base %s))", m, v.S), "(s-off "+v.S+")")
			case *types.Array:
				terms = append(terms, v.S, e.sc.idxLit(0))
			case *types.Basic:
				if !isString(v.T) {
					return sv{}, c.errf("%s: argument %d is not a byte sequence", sf.Name, i)
				}
				terms = append(terms, "(str-arr "+v.S+")", "(str-off "+v.S+")")
			default:
				return sv{}, c.errf("%s: argument %d is not a byte sequence", sf.Name, i)
			}
		case "any":
			v, err = c.def(v)
			if err != nil {
				return sv{}, err
			}
			terms = append(terms, v.S)
		default:
			t := c.specType(p)
			if t == nil {
				return sv{}, c.errf("%s: unknown parameter type %s", sf.Name, p)
			}
			v, err = c.coerce(v, t)
			if err != nil {
				return sv{}, err
			}
			terms = append(terms, v.S)
		}
	}
	// big-endian loads read positions pos..pos+width-1: quantified facts about the buffer's
	// content are instantiated there
	if w := map[string]int{"be16": 2, "be32": 4, "be64": 8}[sf.Name]; w > 0 && len(terms) == 3 && e.mode == ModeBV && !c.callee && !strings.Contains(terms[2], "q.") {
		for k := 0; k < w; k++ {
			t := terms[2]
			if k > 0 {
				t = fmt.Sprintf("(bvadd %s %s)", terms[2], e.sc.idxLit(int64(k)))
			}
			e.sc.noteIdx(t, e.sc.idx())
		}
	}
	rt := c.specType(sf.Ret)
	if rt == nil {
		return sv{}, c.errf("%s: unknown result type %s", sf.Name, sf.Ret)
	}
	if len(terms) == 0 {
		return c.mk(rt, sf.Name), nil
	}
	return c.mk(rt, fmt.Sprintf("(%s %s)", sf.Name, strings.Join(terms, " "))), nil
}

var _ = ssa.Function{}
