package main

// Function-level verification: entry state, requires, exits vs ensures, frame
// check; call-by-contract; loop cutting.

import (
	"fmt"
	"go/types"
	"os"
	"sort"
	"strconv"
	"strings"

	"golang.org/x/tools/go/ssa"
)

type FuncResult struct {
	Fn       *ssa.Function
	Contract *FuncContract
	Mode     Mode
	Obls     []*Obligation
	Notes    []string
	LibUsed  []string
	Covers   []*Obligation
	Err      error
	Scenario string
	Plan     *replayPlan
	Sct      scenarioT
}

func (e *Exec) specEnv(st, old *State) *specCtx {
	c := &specCtx{e: e, st: st, old: old, vars: map[string]Val{}, bound: map[string]Val{}, extra: map[string]string{}}
	if e.fn.Pkg != nil {
		c.pkg = e.fn.Pkg.Pkg
	} else if p := e.fn.Parent(); p != nil && p.Pkg != nil {
		c.pkg = p.Pkg.Pkg
	}
	for k, v := range e.params {
		c.vars[k] = v
	}
	if st != nil {
		for k, v := range e.ghostVars(st) {
			c.vars[k] = v
		}
	}
	c.where = e.fn.String()
	return c
}

// newExec prepares the executor and the entry state of fn.
func (eng *Engine) newExec(fn *ssa.Function, fc *FuncContract, props []string) *Exec {
	mode := ModeBV
	if fc != nil && fc.ModeSet {
		mode = fc.Mode
	}
	e := &Exec{eng: eng, fn: fn, fc: fc, mode: mode, sc: newScript(mode), initMem: map[string]string{}, memSort: map[string]string{},
		params: map[string]Val{}, oblNames: map[string]int{}, libUsed: map[string]bool{}, propsDef: props, ghostTypes: map[string]types.Type{}, rawGhost: map[string]bool{}}
	return e
}

func (e *Exec) entryState(scen map[string]types.Type) *State {
	fn := e.fn
	st := &State{pc: "true", vals: map[ssa.Value]Val{}, mem: map[string]string{}, nonnil: map[string]bool{}}
	top := e.top(st)
	e.sc.assert(fmt.Sprintf("(> %s 0)", top))
	for i, p := range fn.Params {
		v := e.freshVal(st, "p."+p.Name(), p.Type())
		st.vals[p] = v
		e.params[p.Name()] = v
		e.inputs = append(e.inputs, inputVar{Name: p.Name(), Term: v.S, Type: p.Type().String()})
		_, nilOK := map[string]string(nil)["x"]
		if e.fc != nil {
			_, nilOK = e.fc.Flags["nil_receiver_ok"]
		}
		if i == 0 && fn.Signature.Recv() != nil && !nilOK {
			if _, ok := p.Type().Underlying().(*types.Pointer); ok {
				e.sc.assert(fmt.Sprintf("(not (= %s 0))", v.S))
				st.nonnil[v.S] = true
			}
		}
		if t, ok := scen[p.Name()]; ok {
			e.sc.assert(fmt.Sprintf("(= (i-tag %s) %d)", v.S, e.sc.typeTag(t)))
		}
	}
	e.planReplay(st)
	for _, fv := range fn.FreeVars {
		// captured variables are pointers to cells
		v := e.freshVal(st, "fv."+fv.Name(), fv.Type())
		st.vals[fv] = v
		e.params[fv.Name()] = v
		if _, ok := fv.Type().Underlying().(*types.Pointer); ok {
			e.sc.assert(fmt.Sprintf("(not (= %s 0))", v.S))
			st.nonnil[v.S] = true
		}
	}
	return st
}

// verifyFunc runs the executor over fn and collects obligations.
func (eng *Engine) verifyFunc(fn *ssa.Function, fc *FuncContract, props []string, sct scenarioT) (res *FuncResult) {
	scen, scenName := sct.types, sct.name
	if fc != nil && sct.name != "" && len(fc.VLoops[sct.name]) > 0 {
		// variant-specific loop clauses override the general ones
		cp := *fc
		cp.Loops = map[int]*LoopContract{}
		for k, v := range fc.Loops {
			cp.Loops[k] = v
		}
		for k, v := range fc.VLoops[sct.name] {
			cp.Loops[k] = v
		}
		fc = &cp
	}
	res = &FuncResult{Fn: fn, Contract: fc, Scenario: scenName}
	e := eng.newExec(fn, fc, props)
	e.sct = sct
	res.Mode = e.mode
	defer func() {
		if r := recover(); r != nil {
			res.Err = fmt.Errorf("engine panic in %s: %v", fn.String(), r)
			if eng.debug {
				panic(r)
			}
		}
		delete(ptrCellStore, e)
	}()
	if scenName != "" {
		e.oblNames = map[string]int{}
	}
	st := e.entryState(scen)
	e.tmInitGhosts(st)
	if fc != nil {
		for _, cl := range fc.Lists["count_calls"] {
			for _, n := range strings.Fields(cl.Expr) {
				e.ghostGet(st, strings.ReplaceAll(n, ".", "_")+"_calls", tInt, e.sc.idxLit(0))
				e.precreateRets(st, fn, n)
			}
		}
	}
	e.entry = st.clone()
	entry := e.entry
	// requires
	if fc != nil {
		for _, cl := range append(append([]Clause(nil), fc.Requires...), fc.Assumes...) {
			cl.Expr = sct.subst(cl.Expr)
			c := e.specEnv(st, nil)
			c.where = fmt.Sprintf("%s:%d", cl.File, cl.Line)
			t, err := c.evalBool(cl.Expr)
			if err != nil {
				res.Err = err
				return
			}
			e.sc.assert(t)
		}
		if sct.assume != "" {
			c := e.specEnv(st, nil)
			c.where = fn.String() + " variant " + sct.name
			t, err := c.evalBool(sct.assume)
			if err != nil {
				res.Err = err
				return
			}
			if sct.cover {
				// the variants together cover the precondition
				e.checkPost(st, "requires", "variants-cover", t, nil, fmt.Sprintf("%s:%d", fc.File, fc.Line))
				res.Obls = e.obls
				for _, o := range res.Obls {
					o.Name = strings.Replace(o.Name, "#", "["+scenName+"]#", 1)
				}
				return
			}
			e.sc.assert(t)
		}
		for _, u := range fc.Uses {
			c := e.specEnv(st, nil)
			if err := e.useHint(c, st, u); err != nil {
				res.Err = err
				return
			}
		}
		e.entry = st.clone()
		entry = e.entry
	}
	// cover: the precondition is satisfiable
	res.Covers = append(res.Covers, &Obligation{Name: fn.String() + scenSuffix(scenName) + "#cover#requires", Kind: "cover", Func: fn.String(), Prefix: e.sc.mark(), Goal: "false", PC: "true", Script: e.sc, Expect: "sat", Props: props})

	exits := e.run(fn, st, fc)
	if fc != nil {
		for i, cl := range fc.Lists["at_return"] {
			if e.atReturnHits[i] == 0 {
				e.note("CONTRACT-ERROR at_return clause applies at no return: %s:%d", cl.File, cl.Line)
			}
		}
		for i, cl := range fc.Lists["before"] {
			skip := false
			for _, pr := range cl.Props {
				if strings.HasPrefix(pr, "@") && !sct.matches(pr[1:]) {
					skip = true
				}
			}
			if !skip && e.beforeHits[i] == 0 {
				e.note("CONTRACT-ERROR before clause applies to no call (callee name?): %s:%d", cl.File, cl.Line)
			}
		}
		for _, cl := range fc.Lists["assume_after"] {
			if e.chanHits["assume_after#"+strings.TrimSpace(cl.Expr)] == 0 {
				e.note("CONTRACT-ERROR assume_after clause applies to no call: %s:%d", cl.File, cl.Line)
			}
		}
		for _, kind := range []string{"before_send", "assume_recv"} {
			for i, cl := range fc.Lists[kind] {
				if e.chanHits[fmt.Sprintf("%s#%d", kind, i)] == 0 {
					e.note("CONTRACT-ERROR %s clause applies to no communication: %s:%d", kind, cl.File, cl.Line)
				}
			}
		}
	}
	exits = e.applyRecover(fn, fc, exits)
	exits = e.mergeExits(exits)

	// exits against ensures
	resNames := []string{}
	if sig := fn.Signature; sig != nil {
		for i := 0; i < sig.Results().Len(); i++ {
			resNames = append(resNames, sig.Results().At(i).Name())
		}
	}
	mentionsSoft := false
	if fc != nil {
		for _, cl := range fc.Ensures {
			if strings.Contains(cl.Expr, "soft_panic()") || strings.Contains(cl.Expr, "panics()") {
				mentionsSoft = true
			}
		}
		if _, ok := fc.Flags["may_soft_panic"]; ok {
			mentionsSoft = true
		}
	}
	nret := 0
	for _, ex := range exits {
		if ex.st.pc == "false" {
			continue
		}
		if ex.kind == exitSoft && !mentionsSoft {
			if fc != nil || eng.boundary(fn) {
				e.checkPost(ex.st, "escape", "softpanic", "false", nil, e.eng.posString(fn.Pos()))
			}
			continue
		}
		if ex.kind == exitReturn {
			nret++
		}
		if fc == nil {
			continue
		}
		if _, te := fc.Flags["trusted_ensures"]; te {
			// the postconditions are assumed by callers but not checked here (stated reason in the
			// contract; listed among the assumptions); the body is still checked for panics,
			// loop invariants, before- and at_return-clauses
			continue
		}
		for ci, cl := range fc.Ensures {
			if cl.Variant != "" && !sct.matches(cl.Variant) {
				continue
			}
			cl.Expr = sct.subst(cl.Expr)
			c := e.specEnv(ex.st, entry)
			c.where = fmt.Sprintf("%s:%d", cl.File, cl.Line)
			c.resName = resNames
			if ex.kind == exitSoft {
				c.soft = "true"
				c.results = nil
				// results are not available on a panic exit: clauses must guard them with !panics()
				for _, rt := range resTypes(fn) {
					c.results = append(c.results, Val{T: rt, S: e.sc.zero(rt)})
				}
			} else {
				c.soft = "false"
				c.results = ex.results
			}
			t, err := c.evalBool(cl.Expr)
			if err != nil {
				res.Err = err
				return
			}
			label := cl.Label
			if label == "" {
				label = fmt.Sprintf("%d", ci)
			}
			kind := "ensures"
			if ex.kind == exitSoft {
				label += ".panic"
			}
			where := fmt.Sprintf("%s:%d", cl.File, cl.Line)
			casesApply := true
			if only, ok := fc.Flags["cases_for"]; ok && !sct.matches(strings.TrimPrefix(strings.TrimSpace(only), "@")) {
				casesApply = false // `cases_for @tag`: the case split is for those scenarios only
			}
			if cs, ok := fc.Flags["cases"]; ok && ex.kind == exitReturn && casesApply {
				// cases <lo> <hi> <expr>: one obligation per value of expr, plus completeness
				parts := strings.SplitN(sct.subst(cs), " ", 3)
				lo, _ := strconv.Atoi(parts[0])
				hi, _ := strconv.Atoi(parts[1])
				cc := e.specEnv(ex.st, entry)
				cc.where = where
				var inRange []string
				for k := lo; k <= hi; k++ {
					ct, err := cc.evalBool(fmt.Sprintf("(%s) == %d", parts[2], k))
					if err != nil {
						res.Err = err
						return
					}
					inRange = append(inRange, ct)
					e.checkPost(ex.st, kind, fmt.Sprintf("%s.case%d", label, k), imp(ct, t), cl.Props, where)
				}
				if ci == 0 {
					e.checkPost(ex.st, kind, "cases-complete", or(inRange...), cl.Props, where)
				}
				continue
			}
			e.checkPost(ex.st, kind, label, t, cl.Props, where)
		}
		if fc.HasMod {
			e.frameCheck(ex.st, entry, fc, int(ex.kind))
		}
		if pt, ok := fc.Flags["preserves_types"]; ok && !fc.Trusted {
			e.preservesCheck(ex.st, strings.Fields(pt), int(ex.kind), fc)
		}
	}
	res.Obls = e.obls
	res.Covers = append(res.Covers, e.siteCovers...)
	res.Plan = e.plan
	res.Sct = sct
	for _, o := range res.Obls {
		o.Inputs = e.inputs
		if scenName != "" {
			o.Name = strings.Replace(o.Name, "#", "["+scenName+"]#", 1)
		}
	}
	res.Notes = e.notes
	for _, n := range e.notes {
		if strings.HasPrefix(n, "CONTRACT-ERROR") {
			res.Err = fmt.Errorf("%s: %s", fn.String(), n)
			return
		}
	}
	for k := range e.libUsed {
		res.LibUsed = append(res.LibUsed, k)
	}
	sort.Strings(res.LibUsed)
	return
}

func scenSuffix(s string) string {
	if s == "" {
		return ""
	}
	return "[" + s + "]"
}

func resTypes(fn *ssa.Function) []types.Type {
	var out []types.Type
	for i := 0; i < fn.Signature.Results().Len(); i++ {
		out = append(out, fn.Signature.Results().At(i).Type())
	}
	return out
}

// mergeExits joins all return exits into one and all soft-panic exits into one,
// so that postcondition obligations have stable names.
func (e *Exec) mergeExits(exits []Exit) []Exit {
	var out []Exit
	for _, kind := range []exitKind{exitReturn, exitSoft} {
		var sts []*State
		key := &ssa.Parameter{}
		for _, ex := range exits {
			if ex.kind != kind || ex.st.pc == "false" {
				continue
			}
			if kind == exitReturn {
				ex.st.vals[key] = packResults(ex.results)
			} else {
				ex.st.vals[key] = Val{T: types.NewInterfaceType(nil, nil), S: ex.pv}
			}
			sts = append(sts, ex.st)
		}
		if len(sts) == 0 {
			continue
		}
		m := e.merge(sts, fmt.Sprintf("exit%d", kind))
		rv := m.vals[key]
		delete(m.vals, key)
		ex := Exit{kind: kind, st: m}
		if kind == exitReturn {
			if rv.Tup != nil {
				ex.results = rv.Tup
			} else if rv.T != nil && (rv.S != "" || rv.A != nil || rv.Fn != nil) {
				ex.results = []Val{rv}
			}
		} else {
			ex.pv = rv.S
		}
		out = append(out, ex)
	}
	return out
}

// ---------- modifies ----------

type modTarget struct {
	key  string
	sort string
	ref  string // object ref / slice base ("" for whole-key)
	all  bool
	lens *Val // derived address: havoc exactly the addressed location
}

// evalModifies translates the modifies list into memory targets, evaluated in state st.
func (e *Exec) evalModifies(c *specCtx, list []string) ([]modTarget, error) {
	var out []modTarget
	for _, m := range list {
		m = strings.TrimSpace(m)
		switch {
		case strings.HasSuffix(m, "[*]"):
			v, err := c.evalExpr(strings.TrimSuffix(m, "[*]"))
			if err != nil {
				return nil, err
			}
			switch u := v.T.Underlying().(type) {
			case *types.Slice:
				k, srt := e.elemKey(u.Elem())
				out = append(out, modTarget{key: k, sort: srt, ref: "(s-base " + v.S + ")"})
			case *types.Map:
				dk, ds, vk, vs := e.mapKeys(u)
				out = append(out, modTarget{key: dk, sort: ds, ref: v.S}, modTarget{key: vk, sort: vs, ref: v.S},
					modTarget{key: "MN", sort: fmt.Sprintf("(Array Int %s)", e.sc.idx()), ref: v.S})
			default:
				return nil, fmt.Errorf("modifies %s: not a slice or map", m)
			}
		case strings.HasPrefix(m, "*"):
			v, err := c.evalExpr(m[1:])
			if err != nil {
				return nil, err
			}
			pt, ok := v.T.Underlying().(*types.Pointer)
			if !ok {
				return nil, fmt.Errorf("modifies %s: not a pointer", m)
			}
			if s, ok := pt.Elem().Underlying().(*types.Struct); ok {
				for i := 0; i < s.NumFields(); i++ {
					k, srt := e.heapKey(pt.Elem(), i)
					out = append(out, modTarget{key: k, sort: srt, ref: v.S})
				}
			} else if v.A != nil {
				lv := v.Val
				out = append(out, modTarget{key: v.A.Key, sort: e.memSort[v.A.Key], ref: v.A.Ref, all: v.A.Kind == ALocal, lens: &lv})
			} else {
				k, srt := e.cellKey(pt.Elem())
				out = append(out, modTarget{key: k, sort: srt, ref: v.S})
			}
		case strings.HasPrefix(m, "key:"):
			// raw memory key (whole array), e.g. key:A|bv8
			k := strings.TrimPrefix(m, "key:")
			out = append(out, modTarget{key: k, sort: e.memSort[k], all: true})
		default:
			// x.f : field f of object x
			i := strings.LastIndex(m, ".")
			if i < 0 {
				return nil, fmt.Errorf("modifies %s: expected x.f, x[*], *p", m)
			}
			v, err := c.evalExpr(m[:i])
			if err != nil {
				return nil, err
			}
			pt, ok := v.T.Underlying().(*types.Pointer)
			if !ok {
				return nil, fmt.Errorf("modifies %s: %s is not a pointer", m, m[:i])
			}
			s, ok := pt.Elem().Underlying().(*types.Struct)
			if !ok {
				return nil, fmt.Errorf("modifies %s: not a struct", m)
			}
			found := false
			if v.A != nil {
				// field of a struct reached through a derived address
				for fi := 0; fi < s.NumFields(); fi++ {
					if s.Field(fi).Name() == m[i+1:] {
						na := *v.A
						na.Steps = append(append([]step(nil), v.A.Steps...), step{field: fi, st: pt.Elem()})
						na.T = s.Field(fi).Type()
						lv := Val{T: types.NewPointer(s.Field(fi).Type()), A: &na}
						out = append(out, modTarget{key: na.Key, sort: e.memSort[na.Key], ref: na.Ref, lens: &lv})
						found = true
					}
				}
				if !found {
					return nil, fmt.Errorf("modifies %s: no such field", m)
				}
				continue
			}
			for fi := 0; fi < s.NumFields(); fi++ {
				if s.Field(fi).Name() == m[i+1:] {
					k, srt := e.heapKey(pt.Elem(), fi)
					out = append(out, modTarget{key: k, sort: srt, ref: v.S})
					found = true
				}
			}
			if !found {
				return nil, fmt.Errorf("modifies %s: no such field", m)
			}
		}
	}
	return out, nil
}

// frameCheck: at an exit, every pre-existing location outside the modifies list is unchanged.
func (e *Exec) frameCheck(st, entry *State, fc *FuncContract, xi int) {
	c := e.specEnv(entry, nil)
	targets, err := e.evalModifies(c, fc.Modifies)
	if err != nil {
		e.note("CONTRACT-ERROR modifies: %v", err)
		return
	}
	topE := e.top(entry)
	for _, k := range sortedKeys(st.mem) {
		if strings.HasPrefix(k, "L|") || strings.HasPrefix(k, "IT|") || k == "top" || strings.HasPrefix(k, "stale:") || strings.HasPrefix(k, "ghost|") || strings.HasPrefix(k, "tb|") || k == "*all" {
			continue
		}
		cur := st.mem[k]
		init := e.initMem[k]
		if cur == init {
			continue
		}
		var refs []string
		whole := false
		for _, t := range targets {
			if t.key == k {
				if t.all || t.ref == "" {
					whole = true
				}
				refs = append(refs, t.ref)
			}
		}
		if whole {
			continue
		}
		if strings.HasPrefix(k, "G|") {
			e.checkPost(st, "frame", k+exitSuffix(xi), eq(cur, init), nil, fmt.Sprintf("%s:%d", fc.File, fc.Line))
			continue
		}
		r := e.sc.fresh("fr", "Int")
		var conds []string
		conds = append(conds, fmt.Sprintf("(< %s %s)", r, topE), fmt.Sprintf("(>= %s 0)", r))
		for _, x := range refs {
			conds = append(conds, not(eq(r, x)))
		}
		goal := imp(and(conds...), fmt.Sprintf("(= (select %s %s) (select %s %s))", cur, r, init, r))
		e.checkPost(st, "frame", k+exitSuffix(xi), goal, nil, fmt.Sprintf("%s:%d", fc.File, fc.Line))
	}
}

// ---------- call by contract ----------

func (e *Exec) callByContract(st *State, c *FuncContract, callee *ssa.Function, args []Val, resT types.Type, dst ssa.Value, cc *ssa.CallCommon) (bool, []Exit) {
	name := c.Key
	e.libUsed["contract:"+name] = true
	if c.Trusted {
		e.libUsed["trusted-contract:"+name] = true
	}
	if _, te := c.Flags["trusted_ensures"]; te {
		e.libUsed["trusted-contract:"+name+" (postconditions only)"] = true
	}
	// bind parameters
	vars := map[string]Val{}
	var pnames []string
	var pkg *types.Package
	var resNames []string
	if callee != nil {
		for i, p := range callee.Params {
			pnames = append(pnames, p.Name())
			if i < len(args) {
				v := args[i]
				v.T = p.Type()
				vars[p.Name()] = v
			}
		}
		if callee.Pkg != nil {
			pkg = callee.Pkg.Pkg
		} else if p := callee.Parent(); p != nil && p.Pkg != nil {
			pkg = p.Pkg.Pkg
		}
		for i := 0; i < callee.Signature.Results().Len(); i++ {
			resNames = append(resNames, callee.Signature.Results().At(i).Name())
		}
	} else {
		// interface method: receiver is "recv", then the declared parameter names
		vars["recv"] = args[0]
		sig := cc.Method.Type().(*types.Signature)
		for i := 0; i < sig.Params().Len(); i++ {
			n := sig.Params().At(i).Name()
			if n == "" {
				n = fmt.Sprintf("arg%d", i)
			}
			if i+1 < len(args) {
				vars[n] = args[i+1]
			}
		}
		pkg = cc.Method.Pkg()
		for i := 0; i < sig.Results().Len(); i++ {
			resNames = append(resNames, sig.Results().At(i).Name())
		}
	}
	// call counters of the callee (`count_calls`): in its contract <name>_calls is the
	// number of calls made during this invocation; the caller's own counter advances by it
	deltas := map[string]string{}
	for _, cl := range c.Lists["count_calls"] {
		for _, n := range strings.Fields(cl.Expr) {
			d := e.sc.fresh("calls."+n, e.sc.idx())
			e.sc.assert(and(e.le(e.sc.idxLit(0), d), e.le(d, e.sc.idxLit(maxLen))))
			n = strings.ReplaceAll(n, ".", "_")
			deltas[n] = d
			vars[n+"_calls"] = Val{T: tInt, S: d}
		}
	}
	mk := func(s, old *State) *specCtx {
		x := &specCtx{e: e, st: s, old: old, vars: vars, bound: map[string]Val{}, extra: map[string]string{}, pkg: pkg, resName: resNames, callee: true}
		x.where = fmt.Sprintf("%s (called from %s)", name, e.fn.String())
		return x
	}
	pos := cc.Pos()
	// requires
	for i, cl := range c.Requires {
		x := mk(st, nil)
		x.where = fmt.Sprintf("%s:%d", cl.File, cl.Line)
		t, err := x.evalBool(cl.Expr)
		if err != nil {
			e.note("CONTRACT-ERROR contract %s: %v", name, err)
			continue
		}
		e.check(st, "requires", fmt.Sprintf("%s.%d:%s", name, i, e.srcText(pos)), t, pos)
	}
	pre := st.clone()
	// havoc
	if c.HasMod {
		x := mk(pre, nil)
		targets, err := e.evalModifies(x, c.Modifies)
		if err != nil {
			e.note("CONTRACT-ERROR contract %s: %v", name, err)
		}
		// the callee may allocate: the values it leaves in the modified locations may be objects made
		// during the call, so the allocation counter advances BEFORE those values are introduced (their
		// type invariant "older than the counter" must refer to the counter after the call)
		{
			tp := e.top(st)
			nt := e.sc.fresh("top", "Int")
			e.sc.assert(imp(st.pc, fmt.Sprintf("(>= %s %s)", nt, tp)))
			st.mem["top"] = nt
		}
		for _, t := range targets {
			if t.lens != nil {
				el := t.lens.T.Underlying().(*types.Pointer).Elem()
				e.store(st, *t.lens, e.freshVal(st, "hv.lens", el))
				continue
			}
			if t.sort == "" {
				continue
			}
			cur := e.memGet(st, t.key, t.sort)
			if t.all || t.ref == "" {
				st.mem[t.key] = e.sc.fresh("hv."+t.key, t.sort)
				continue
			}
			elemSort := strings.TrimSuffix(strings.TrimPrefix(t.sort, "(Array Int "), ")")
			nv := e.sc.fresh("hv."+t.key, elemSort)
			e.assume(st, e.wfBySort(st, nv, elemSort))
			e.memSet(st, t.key, t.sort, fmt.Sprintf("(store %s %s %s)", cur, t.ref, nv))
		}
	} else {
		if pt, ok := c.Flags["preserves_types"]; ok {
			e.keepTypes = strings.Fields(pt)
		}
		e.havocForCall(st, callee, cc, args)
		e.keepTypes = nil
	}
	// results
	res := e.freshVal(st, "res."+sanitize(name), resT)
	var results []Val
	if res.Tup != nil {
		results = res.Tup
	} else if tup, ok := resT.(*types.Tuple); !ok || tup.Len() > 0 {
		results = []Val{res}
	}
	// may the callee soft-panic?
	maySoft := false
	for _, cl := range c.Ensures {
		if strings.Contains(cl.Expr, "soft_panic()") || strings.Contains(cl.Expr, "panics()") {
			maySoft = true
		}
	}
	if _, ok := c.Flags["may_soft_panic"]; ok {
		maySoft = true
	}
	sp := "false"
	if maySoft {
		sp = e.sc.fresh("sp."+sanitize(name), "Bool")
	}
	if len(c.Lists["ensures_assumed"]) > 0 {
		e.libUsed["trusted-contract:"+name+" (clauses marked ensures_assumed)"] = true
	}
	for _, cl := range append(append([]Clause(nil), c.Ensures...), c.Lists["ensures_assumed"]...) {
		if cl.Variant != "" && c.variantExpr(cl.Variant) == "" {
			// clause of a type scenario of the callee: usable when the caller is being verified
			// under a matching scenario and passes its scenario parameter through unchanged
			if !e.scenarioPassedThrough(c, callee, args) || !e.sct.matches(cl.Variant) {
				if os.Getenv("GOVC_DEBUG_VARS") != "" {
					fmt.Fprintf(os.Stderr, "skip scenario clause %q: passthrough=%v match=%v\n", cl.Variant, e.scenarioPassedThrough(c, callee, args), e.sct.matches(cl.Variant))
				}
				continue
			}
			cl.Expr = e.sct.subst(cl.Expr)
			cl.Variant = ""
		} else if cl.Variant == "" {
			cl.Expr = e.sct.subst(cl.Expr)
		}
		if strings.Contains(cl.Expr, "$T") || strings.Contains(cl.Expr, "$E") {
			continue
		}
		if e.eng.curProp != "" && hasProp(c.Props, e.eng.curProp) && !hasPropTag(cl.Props, e.eng.curProp) {
			// the callee is verified in this run, but not this postcondition (it is tagged for other
			// properties only): the run does not rely on what it does not prove about the functions in its scope
			continue
		}
		x := mk(st, pre)
		x.results = results
		x.soft = sp
		x.where = fmt.Sprintf("%s:%d", cl.File, cl.Line)
		t, err := x.evalBool(cl.Expr)
		if err != nil {
			_, isAtomic := c.Flags["atomic"]
			if (isAtomic || len(c.Lists["count_calls"]) > 0) && strings.Contains(err.Error(), "unknown identifier") {
				// clause about the callee's own ghost record (CAS/Add bookkeeping): not visible to callers
				continue
			}
			e.note("CONTRACT-ERROR contract %s: %v", name, err)
			continue
		}
		if cl.Variant != "" {
			// proved only under the variant's condition (evaluated in the pre-state)
			vx := mk(pre, nil)
			vt, err := vx.evalBool(c.variantExpr(cl.Variant))
			if err != nil {
				e.note("CONTRACT-ERROR contract %s variant %s: %v", name, cl.Variant, err)
				continue
			}
			t = imp(vt, t)
		}
		e.assume(st, t)
	}
	for n, d := range deltas {
		if _, counted := e.ghostTypes[n+"_calls"]; counted && e.curFn == e.fn {
			cur := e.ghostGet(st, n+"_calls", tInt, e.sc.idxLit(0))
			e.ghostSet(st, n+"_calls", tInt, e.add(cur.S, d))
		}
	}
	e.setResult(st, dst, res)
	if maySoft {
		es := st.clone()
		es.pc = e.sc.define("pc", "Bool", and(st.pc, sp))
		st.pc = e.sc.define("pc", "Bool", and(st.pc, not(sp)))
		return true, e.softExit(es, e.softPanicValue(es))
	}
	return true, nil
}

// hasPropTag: the clause's tags name the property (variant tags, which start with @, are not property tags;
// a clause with variant tags only belongs to every property of its function)
func hasPropTag(tags []string, prop string) bool {
	n := 0
	for _, t := range tags {
		if strings.HasPrefix(t, "@") {
			continue
		}
		n++
		if t == prop {
			return true
		}
	}
	return n == 0
}

// ---------- loops ----------

// loopVars resolves the source-level names usable in the invariants of loop l.
func (e *Exec) loopVars(fn *ssa.Function, l *loopInfo, st *State, at *ssa.BasicBlock) map[string]Val {
	if at == nil {
		at = l.header
	}
	vars := map[string]Val{}
	// any named value whose definition dominates the header; among several
	// candidates for one name the most recent one (deepest in the dominator
	// tree, latest in its block) wins
	type cand struct {
		v       Val
		blk     *ssa.BasicBlock
		ord     int
		isConst bool
	}
	best := map[string]cand{}
	ord := 0
	for _, b := range fn.Blocks {
		for _, ins := range b.Instrs {
			ord++
			if phi, isPhi := ins.(*ssa.Phi); isPhi && phi.Comment != "" && b != l.header && (b == at || b.Dominates(at)) {
				// a merge of several assignments to a variable (x := a; if c { x = b }) has no debug
				// reference of its own: the phi is the variable's value from here on
				if v, ok := st.vals[phi]; ok {
					c := cand{v: v, blk: b, ord: ord}
					old, has := best[phi.Comment]
					if !has || old.isConst || (old.blk == c.blk && c.ord > old.ord) || (old.blk != c.blk && old.blk.Dominates(c.blk)) {
						best[phi.Comment] = c
					}
				}
				continue
			}
			d, ok := ins.(*ssa.DebugRef)
			if !ok || d.IsAddr {
				continue
			}
			name := debugName(d)
			if name == "" {
				continue
			}
			v, ok := st.vals[d.X]
			if !ok {
				if _, isC := d.X.(*ssa.Const); isC {
					v = e.val(st, d.X)
					ok = true
				}
			}
			if !ok {
				continue
			}
			// the reference itself must be located before the evaluation point
			if b != at && !b.Dominates(at) {
				continue
			}
			if b == l.header && at == l.header && len(l.body) > 0 {
				continue
			}
			if db := valueBlock(d.X); db != nil && db != at && !db.Dominates(at) {
				continue
			}
			if _, isPhi := d.X.(*ssa.Phi); isPhi && valueBlock(d.X) == l.header {
				continue // handled below
			}
			if os.Getenv("GOVC_DEBUG_VARS") != "" && name == "m" {
				fmt.Fprintf(os.Stderr, "cand m: X=%s (%T) val=%q block=%d\n", d.X.Name(), d.X, v.S, b.Index)
			}
			_, isConst := d.X.(*ssa.Const)
			c := cand{v: v, blk: b, ord: ord, isConst: isConst}
			old, has := best[name]
			switch {
			case !has:
				best[name] = c
			case old.isConst && !c.isConst:
				best[name] = c // a real definition beats a constant placeholder
			case !old.isConst && c.isConst:
			case (old.blk == c.blk && c.ord > old.ord) || (old.blk != c.blk && old.blk.Dominates(c.blk)):
				best[name] = c
			}
		}
	}
	for n, c := range best {
		vars[n] = c.v
		if os.Getenv("GOVC_DEBUG_VARS") != "" {
			fmt.Fprintf(os.Stderr, "loopvar %s: %s = %q (%v) fn=%v A=%v\n", fn.Name(), n, c.v.S, c.v.T, c.v.Fn != nil, c.v.A != nil)
		}
	}
	fromAlloc := map[string]bool{}
	for _, b := range fn.Blocks {
		if b != at && !b.Dominates(at) {
			continue
		}
		for _, ins := range b.Instrs {
			if a, ok := ins.(*ssa.Alloc); ok && a.Comment != "" {
				if v, ok := st.vals[a]; ok {
					// the cell is the truth for an address-taken variable (a debug
					// reference only names the value stored at that point)
					if _, dup := fromAlloc[a.Comment]; !dup {
						lv := e.specLoad(st, v)
						vars[a.Comment] = lv
						fromAlloc[a.Comment] = true
					}
				}
			}
		}
	}
	for _, p := range fn.Params {
		if v, ok := st.vals[p]; ok {
			vars[p.Name()] = v
		}
	}
	for _, p := range fn.FreeVars {
		if v, ok := st.vals[p]; ok {
			vars[p.Name()] = v
		}
	}
	for _, ins := range l.header.Instrs {
		phi, ok := ins.(*ssa.Phi)
		if !ok {
			break
		}
		if phi.Comment != "" {
			if v, ok := st.vals[phi]; ok {
				vars[phi.Comment] = v
			}
		}
	}
	// iterator positions of string ranges
	for k := range e.memSort {
		if strings.HasPrefix(k, "IT|") && !strings.HasPrefix(k, "IT|N:") && !strings.HasPrefix(k, "IT|V:") {
			vars["iterpos"] = Val{T: tInt, S: e.memGet(st, k, e.sc.idx())}
		}
		// itercount: entries produced so far by the function's range over a map
		if strings.HasPrefix(k, "IT|N:"+fn.Name()+".") {
			vars["itercount"] = Val{T: tInt, S: e.memGet(st, k, e.sc.idx())}
		}
	}
	return vars
}

func debugName(d *ssa.DebugRef) string {
	if id, ok := d.Expr.(interface{ End() interface{} }); ok {
		_ = id
	}
	if obj := d.Object(); obj != nil {
		if v, ok := obj.(*types.Var); ok && v.IsField() {
			return "" // a field selector (x.f) is not a variable named f
		}
		return obj.Name()
	}
	return ""
}

func valueBlock(v ssa.Value) *ssa.BasicBlock {
	if ins, ok := v.(ssa.Instruction); ok {
		return ins.Block()
	}
	return nil
}

func (e *Exec) invCtx(fn *ssa.Function, l *loopInfo, st *State) *specCtx {
	c := e.specEnv(st, e.entry)
	if e.curFn != e.fn {
		c.vars = map[string]Val{}
		if fn.Pkg != nil {
			c.pkg = fn.Pkg.Pkg
		}
	}
	for k, v := range e.loopVars(fn, l, st, nil) {
		c.vars[k] = v
	}
	return c
}

// loopModified: memory keys possibly written inside the loop (at references
// that may exist at the loop head; see havocForCall for fresh-only keys).
func (e *Exec) loopModified(fn *ssa.Function, l *loopInfo) (map[string]string, bool) {
	keys := map[string]string{}
	all := false
	e.loopExcept = nil
	first := true
	// freshness relative to the loop: only objects allocated inside the body are invisible at its head
	freshScope = l.body
	defer func() { freshScope = nil }()
	for b := range l.body {
		for _, ins := range b.Instrs {
			a := e.eng.instrWrites(ins, e.sc, fn)
			for k, s := range a.keys {
				if a.old[k] {
					keys[k] = s
				}
			}
			if a.all {
				if first {
					e.loopExcept = append([]string(nil), a.except...)
					first = false
				} else {
					e.loopExcept = intersectStrs(e.loopExcept, a.except)
				}
			}
			all = all || a.all
		}
	}
	return keys, all
}

func (e *Exec) cutLoopHead(fn *ssa.Function, fc *FuncContract, l *loopInfo, st *State) {
	var lc *LoopContract
	if fc != nil {
		lc = fc.Loops[l.ordinal]
	}
	pos := e.eng.posString(l.header.Instrs[0].Pos())
	// 1. invariant holds on entry
	if lc != nil {
		for i, cl := range lc.Invariants {
			c := e.invCtx(fn, l, st)
			c.where = fmt.Sprintf("%s:%d", cl.File, cl.Line)
			t, err := c.evalBool(cl.Expr)
			if err != nil {
				e.note("CONTRACT-ERROR invariant: %v", err)
				continue
			}
			e.checkPost(st, "inv-init", fmt.Sprintf("loop%d.%d", l.ordinal, i), t, cl.Props, pos)
		}
	}
	// 2. havoc loop-carried state
	for _, ins := range l.header.Instrs {
		phi, ok := ins.(*ssa.Phi)
		if !ok {
			break
		}
		old := st.vals[phi]
		if old.A != nil || old.Fn != nil || old.Tup != nil {
			e.note("%s: loop-carried address value (unsupported)", fn.String())
			continue
		}
		st.vals[phi] = e.freshVal(st, "lp."+phi.Comment, phi.Type())
		if phi.Comment == "rangeindex" && isIntType(phi.Type()) {
			// hidden index of a `range` loop: starts at -1, incremented by one per
			// iteration and bounded by a length (<= 2^40): never below -1, never overflows
			e.assume(st, and(e.le(e.sc.idxLit(-1), st.vals[phi].S), e.le(st.vals[phi].S, e.sc.idxLit(maxLen))))
		}
	}
	keys, all := e.loopModified(fn, l)
	for k, srt := range keys {
		e.memGet(st, k, srt)
	}
	if fc != nil && len(fc.Lists["count_calls"]) > 0 {
		for name, t := range e.ghostTypes {
			if strings.HasSuffix(name, "_calls") && !e.rawGhost[name] && e.loopMayCount(l, strings.TrimSuffix(name, "_calls")) {
				keys["ghost|"+name] = e.sc.sortOf(t)
			}
		}
	}
	for b := range l.body {
		for _, ins := range b.Instrs {
			if _, ok := ins.(*ssa.Send); ok && e.curFn == e.fn {
				e.sendCount(st)
				el := ins.(*ssa.Send).Chan.Type().Underlying().(*types.Chan).Elem()
				e.sendVals(st, el)
				keys["ghost|send_count"] = e.memSort["ghost|send_count"]
				k := "ghost|send_val_" + sortTag(e.sc.sortOf(el))
				keys[k] = e.memSort[k]
			}
		}
	}
	if e.tm() != nil && e.loopHasAtomics(l) {
		for name, t := range e.ghostTypes {
			if strings.HasPrefix(name, "measure") || e.rawGhost[name] {
				continue
			}
			keys["ghost|"+name] = e.sc.sortOf(t)
		}
	}
	// earlier iterations may have allocated: the counter at the loop head is some value not below the
	// one on entry, and the arbitrary values introduced below may be objects made by those iterations
	{
		tp := e.top(st)
		nt := e.sc.fresh("top", "Int")
		e.sc.assert(imp(st.pc, fmt.Sprintf("(>= %s %s)", nt, tp)))
		st.mem["top"] = nt
	}
	// keys for which the function's modifies clause names individual objects
	// are havocked only at those objects (loop frame rule; checked on the back edge)
	if fc != nil && fc.HasMod && e.curFn == e.fn && !all {
		c := e.specEnv(e.entry, nil)
		if targets, err := e.evalModifies(c, fc.Modifies); err == nil {
			if e.loopHeads == nil {
				e.loopHeads = map[int]map[string]loopHeadMem{}
			}
			e.loopHeads[l.ordinal] = map[string]loopHeadMem{}
			for _, k := range sortedKeys(keys) {
				var refs []string
				whole := false
				for _, t := range targets {
					if t.key == k {
						if t.all || t.ref == "" {
							whole = true
						}
						refs = append(refs, t.ref)
					}
				}
				if whole || strings.HasPrefix(k, "G|") || strings.HasPrefix(k, "L|") || strings.HasPrefix(k, "IT|") || strings.HasPrefix(k, "ghost|") {
					continue
				}
				if len(refs) == 0 {
					// not in the modifies list: objects that existed at function entry are
					// unchanged (checked on loop entry and on the back edge); objects allocated
					// by this call are arbitrary at the loop head
					srt := keys[k]
					cur := e.memGet(st, k, srt)
					init := e.initMem[k]
					topE := e.top(e.entry)
					if cur != init {
						r := e.sc.fresh("fr", "Int")
						e.checkPost(st, "frame", fmt.Sprintf("loop%d.entry.%s", l.ordinal, k), imp(fmt.Sprintf("(and (>= %s 0) (< %s %s))", r, r, topE), fmt.Sprintf("(= (select %s %s) (select %s %s))", cur, r, init, r)), nil, e.eng.posString(l.header.Instrs[0].Pos()))
					}
					nk := e.sc.fresh("lp."+k, srt)
					e.sc.assert(fmt.Sprintf("(forall ((r Int)) (! (=> (and (>= r 0) (< r %s)) (= (select %s r) (select %s r))) :pattern ((select %s r))))", topE, nk, init, nk))
					st.mem[k] = nk
					e.loopHeads[l.ordinal][k] = loopHeadMem{term: init, refs: nil, top: topE, headName: nk}
					delete(keys, k)
					continue
				}
				srt := keys[k]
				cur := e.memGet(st, k, srt)
				elemSort := strings.TrimSuffix(strings.TrimPrefix(srt, "(Array Int "), ")")
				nv := cur
				for _, r := range refs {
					fv := e.sc.fresh("lp."+k, elemSort)
					e.assume(st, e.wfBySort(st, fv, elemSort))
					nv = fmt.Sprintf("(store %s %s %s)", nv, r, fv)
				}
				e.memSet(st, k, srt, nv)
				e.loopHeads[l.ordinal][k] = loopHeadMem{term: st.mem[k], refs: refs, top: e.top(st)}
				delete(keys, k)
			}
		}
	}
	written := map[*ssa.FreeVar]bool{}
	for b := range l.body {
		for _, ins := range b.Instrs {
			if sto, ok := ins.(*ssa.Store); ok {
				if fv, ok := sto.Addr.(*ssa.FreeVar); ok {
					written[fv] = true
				}
			}
		}
	}
	e.havocKeysSorted(st, keys, all, written, l.body)
	// call counters are non-negative and bounded (assumption: fewer than 2^40 calls per invocation)
	for name, t := range e.ghostTypes {
		if e.rawGhost[name] {
			continue
		}
		if strings.HasSuffix(name, "_calls") || strings.HasSuffix(name, "_count") {
			if _, hv := keys["ghost|"+name]; hv {
				g := e.ghostGet(st, name, t, e.sc.zero(t))
				e.assume(st, and(e.le(e.sc.idxLit(0), g.S), e.le(g.S, e.sc.idxLit(maxLen))))
			}
		}
	}
	defer func() {
		if e.curFn == e.fn {
			if e.loopHeadSt == nil {
				e.loopHeadSt = map[int]*State{}
			}
			e.loopHeadSt[l.ordinal] = st.clone()
		}
	}()
	// 3. assume the invariant
	if lc != nil {
		for _, cl := range lc.Invariants {
			c := e.invCtx(fn, l, st)
			t, err := c.evalBool(cl.Expr)
			if err != nil {
				continue
			}
			e.assume(st, t)
		}
		for _, u := range lc.Uses {
			c := e.invCtx(fn, l, st)
			if err := e.useHint(c, st, u); err != nil {
				e.note("CONTRACT-ERROR use: %v", err)
			}
		}
		if lc.Decreases != "" {
			c := e.invCtx(fn, l, st)
			v, err := c.evalExpr(lc.Decreases)
			if err == nil {
				v, _ = c.def(v)
				st.mem[fmt.Sprintf("ghost|measure%d", l.ordinal)] = e.sc.define("measure", e.sc.idx(), v.S)
				e.memSort[fmt.Sprintf("ghost|measure%d", l.ordinal)] = e.sc.idx()
			} else {
				e.note("CONTRACT-ERROR decreases: %v", err)
			}
		}
	}
}

func (e *Exec) checkLoopBack(fn *ssa.Function, fc *FuncContract, l *loopInfo, st *State) {
	var lc *LoopContract
	if fc != nil {
		lc = fc.Loops[l.ordinal]
	}
	pos := e.eng.posString(l.header.Instrs[0].Pos())
	// loop frame: objects outside the modifies list are untouched by one iteration
	if e.curFn == e.fn {
		for _, k := range sortedKeys(e.loopHeads[l.ordinal]) {
			h := e.loopHeads[l.ordinal][k]
			cur := e.memGet(st, k, e.memSort[k])
			if cur == h.term || cur == h.headName {
				continue
			}
			r := e.sc.fresh("fr", "Int")
			conds := []string{fmt.Sprintf("(>= %s 0)", r), fmt.Sprintf("(< %s %s)", r, h.top)}
			for _, x := range h.refs {
				conds = append(conds, not(eq(r, x)))
			}
			e.checkPost(st, "frame", fmt.Sprintf("loop%d.%s", l.ordinal, k), imp(and(conds...), fmt.Sprintf("(= (select %s %s) (select %s %s))", cur, r, h.term, r)), nil, pos)
		}
	}
	if lc == nil {
		return
	}
	for i, cl := range lc.Invariants {
		c := e.invCtx(fn, l, st)
		c.where = fmt.Sprintf("%s:%d", cl.File, cl.Line)
		t, err := c.evalBool(cl.Expr)
		if err != nil {
			e.note("CONTRACT-ERROR invariant: %v", err)
			continue
		}
		e.checkPost(st, "inv-step", fmt.Sprintf("loop%d.%d", l.ordinal, i), t, cl.Props, pos)
	}
	if head := e.loopHeadSt[l.ordinal]; head != nil && e.curFn == e.fn {
		for i, cl := range lc.Steps {
			c := e.invCtx(fn, l, st)
			for k, v := range e.loopVars(fn, l, st, e.backFrom) {
				c.vars[k] = v
			}
			c.prevSt = head
			c.prevVar = e.loopVars(fn, l, head, nil)
			c.where = fmt.Sprintf("%s:%d", cl.File, cl.Line)
			t, err := c.evalBool(cl.Expr)
			if err != nil {
				e.note("CONTRACT-ERROR step: %v", err)
				continue
			}
			e.checkPost(st, "loop-step", fmt.Sprintf("loop%d.%d", l.ordinal, i), t, cl.Props, pos)
		}
	}
	if lc.Decreases != "" {
		c := e.invCtx(fn, l, st)
		v, err := c.evalExpr(lc.Decreases)
		if err == nil {
			v, _ = c.def(v)
			m0 := st.mem[fmt.Sprintf("ghost|measure%d", l.ordinal)]
			if m0 != "" {
				e.checkPost(st, "decreases", fmt.Sprintf("loop%d", l.ordinal), and(e.le(e.sc.idxLit(0), m0), e.lt(v.S, m0)), nil, pos)
			}
		}
	}
}

func (e *Exec) havocKeysSorted(st *State, keys map[string]string, all bool, written map[*ssa.FreeVar]bool, body map[*ssa.BasicBlock]bool) {
	e.havocKeysB(st, keys, all, written, body)
}

type loopHeadMem struct {
	term     string
	refs     []string
	top      string
	headName string
}

// ---------- recover ----------

// applyRecover models `defer func(){ if r := recover(); r != nil {...} }()`:
// a soft-panic exit of a function with a Recover block runs the deferred
// closures with recover() returning the panic value and continues at the
// Recover block.
func (e *Exec) applyRecover(fn *ssa.Function, fc *FuncContract, exits []Exit) []Exit {
	if fn.Recover == nil {
		return exits
	}
	var out []Exit
	for _, ex := range exits {
		if ex.kind != exitSoft || len(ex.st.defers) == 0 {
			out = append(out, ex)
			continue
		}
		st := ex.st
		e.recvDepth++
		e.recoverVal = ex.pv
		e.recovered = false
		cont, more := e.runDefers(fn, fc, st)
		rec := e.recovered
		e.recvDepth--
		e.recoverVal = ""
		for _, m := range more {
			out = append(out, m)
		}
		if !cont {
			continue
		}
		if !rec {
			out = append(out, ex)
			continue
		}
		// continue at the recover block
		sub := e.runFrom(fn, fc, fn.Recover, st)
		out = append(out, sub...)
	}
	return out
}

// runFrom executes a single straight-line block (the Recover block).
func (e *Exec) runFrom(fn *ssa.Function, fc *FuncContract, b *ssa.BasicBlock, st *State) []Exit {
	var exits []Exit
	for _, ins := range b.Instrs {
		cont, ex := e.step(fn, fc, st, ins)
		exits = append(exits, ex...)
		if !cont {
			break
		}
	}
	return exits
}

func exitSuffix(kind int) string {
	if kind == int(exitSoft) {
		return ".panic"
	}
	return ""
}

// useHint assumes an instance of an axiom schema of the spec library. Only
// calls of spec functions named *_ax that the library declares as an axiom
// ("; axiom NAME") are accepted, so a hint can only add a true instance.
func (e *Exec) useHint(c *specCtx, st *State, src string) error {
	name := strings.TrimSpace(src)
	if i := strings.Index(name, "("); i > 0 {
		name = name[:i]
	}
	if !strings.HasSuffix(name, "_ax") || !e.eng.spec.isAxiom(name, e.mode) {
		return fmt.Errorf("use %q: not an axiom schema of the spec library", src)
	}
	t, err := c.evalBool(src)
	if err != nil {
		return err
	}
	e.assume(st, t)
	e.libUsed["axiom:"+name] = true
	return nil
}

// matches: does a clause tag (@name) select this scenario? Exact scenario / variant
// name, or a class of scenario types: signed, unsigned, int (any integer), ptr.
func (sct scenarioT) matches(tag string) bool {
	if tag == sct.name {
		return true
	}
	for _, t := range sct.types {
		u := t.Underlying()
		if p, ok := u.(*types.Pointer); ok {
			if tag == "ptr" {
				return true
			}
			u = p.Elem().Underlying()
			if !strings.HasPrefix(tag, "ptr-") {
				return false
			}
			tag = strings.TrimPrefix(tag, "ptr-")
		}
		if b, ok := u.(*types.Basic); ok {
			if w, signed, isInt := intWidth(b); isInt {
				switch tag {
				case "int":
					return true
				case "signed":
					return signed
				case "unsigned":
					return !signed
				case fmt.Sprintf("w%d", w):
					return true
				}
			}
		}
	}
	return false
}

// subst replaces $T (the scenario type) and $E (its pointee, for pointer scenarios).
func (sct scenarioT) subst(expr string) string {
	for _, t := range sct.types {
		q := func(p *types.Package) string {
			if p.Path() == "github.com/gocql/gocql" {
				return ""
			}
			return p.Name()
		}
		expr = strings.ReplaceAll(expr, "$T", types.TypeString(t, q))
		if p, ok := t.Underlying().(*types.Pointer); ok {
			expr = strings.ReplaceAll(expr, "$E", types.TypeString(p.Elem(), q))
		}
	}
	return expr
}

// scenarioPassedThrough: the callee's scenario parameter receives the caller's
// scenario parameter (same value), so the dynamic type assumed for the caller
// is the callee's too.
func (e *Exec) scenarioPassedThrough(c *FuncContract, callee *ssa.Function, args []Val) bool {
	if callee == nil || len(c.Scenario) == 0 || len(e.sct.types) == 0 {
		return false
	}
	for cp := range c.Scenario {
		for i, p := range callee.Params {
			if p.Name() != cp || i >= len(args) {
				continue
			}
			for myp := range e.sct.types {
				if mine, ok := e.params[myp]; ok && mine.S == args[i].S && mine.S != "" {
					return true
				}
			}
		}
	}
	return false
}

// precreateRets creates the <name>_retK ghosts for every call of `name` in fn, so
// that they exist (zero-valued) on paths where no such call has happened yet.
func (e *Exec) precreateRets(st *State, fn *ssa.Function, name string) {
	defer e.precreateRetsBySig(st, fn, name)
	for _, b := range fn.Blocks {
		for _, ins := range b.Instrs {
			c, ok := ins.(*ssa.Call)
			if !ok {
				continue
			}
			var names []string
			if cal := c.Call.StaticCallee(); cal != nil {
				names = append(names, cal.Name())
				if qn := staticQualName(cal); qn != "" {
					names = append(names, qn)
				}
			} else if c.Call.IsInvoke() {
				names = append(names, c.Call.Method.Name(), qualName(&c.Call))
			} else if prm, ok := c.Call.Value.(*ssa.Parameter); ok {
				names = append(names, prm.Name())
			}
			hit := false
			for _, n := range names {
				if n == name {
					hit = true
				}
			}
			if !hit {
				continue
			}
			var rts []types.Type
			if tup, ok := c.Type().(*types.Tuple); ok {
				for i := 0; i < tup.Len(); i++ {
					rts = append(rts, tup.At(i).Type())
				}
			} else {
				rts = []types.Type{c.Type()}
			}
			for i, rt := range rts {
				g := fmt.Sprintf("%s_ret%d", strings.ReplaceAll(name, ".", "_"), i)
				if _, have := e.ghostTypes[g]; !have {
					e.ghostGet(st, g, rt, e.sc.zero(rt))
				}
				if i == 0 {
					ga := strings.ReplaceAll(name, ".", "_") + "_rets"
					if _, have := e.ghostTypes[ga]; !have && e.sc.sortOf(rt) != "" {
						at := types.NewArray(rt, 1)
						e.ghostGet(st, ga, at, e.sc.zero(at))
						e.rawGhost[ga] = true
					}
				}
			}
		}
	}
}

// precreateRetsBySig: the counted callee is not called by fn at all (e.g. after a change): the
// result ghosts still exist (zero values, count 0), typed from the declaration, so that the
// clauses mentioning them fail as obligations instead of being unevaluable.
func (e *Exec) precreateRetsBySig(st *State, fn *ssa.Function, name string) {
	g0 := fmt.Sprintf("%s_ret0", strings.ReplaceAll(name, ".", "_"))
	if _, have := e.ghostTypes[g0]; have {
		return
	}
	pkgPath, _ := e.eng.fnKey(fn)
	var pkg *types.Package
	for _, sp := range e.eng.ssaPkgs {
		if sp != nil && sp.Pkg.Path() == pkgPath {
			pkg = sp.Pkg
		}
	}
	if pkg == nil {
		return
	}
	var sig *types.Signature
	if i := strings.IndexByte(name, '.'); i >= 0 {
		if tn, ok := pkg.Scope().Lookup(name[:i]).(*types.TypeName); ok {
			obj, _, _ := types.LookupFieldOrMethod(tn.Type(), true, pkg, name[i+1:])
			if f, ok := obj.(*types.Func); ok {
				sig = f.Type().(*types.Signature)
			}
		}
	} else {
		if f, ok := pkg.Scope().Lookup(name).(*types.Func); ok {
			sig = f.Type().(*types.Signature)
		} else {
			for _, n := range pkg.Scope().Names() {
				tn, ok := pkg.Scope().Lookup(n).(*types.TypeName)
				if !ok {
					continue
				}
				obj, _, _ := types.LookupFieldOrMethod(tn.Type(), true, pkg, name)
				if f, ok := obj.(*types.Func); ok {
					sig = f.Type().(*types.Signature)
					break
				}
			}
		}
	}
	if sig == nil {
		return
	}
	for i := 0; i < sig.Results().Len(); i++ {
		g := fmt.Sprintf("%s_ret%d", strings.ReplaceAll(name, ".", "_"), i)
		if _, have := e.ghostTypes[g]; !have {
			rt := sig.Results().At(i).Type()
			e.ghostGet(st, g, rt, e.sc.zero(rt))
		}
	}
}

// preservesCheck: a function under (untrusted) contract that declares `preserves_types T...`
// must leave every field of every object of these types that existed at entry unchanged.
func (e *Exec) preservesCheck(st *State, typs []string, xi int, fc *FuncContract) {
	e.keepTypes = typs
	defer func() { e.keepTypes = nil }()
	topE := e.top(e.entry)
	for _, k := range sortedKeys(st.mem) {
		if !e.keepsType(k) {
			continue
		}
		cur, init := st.mem[k], e.initMem[k]
		if cur == init || init == "" {
			continue
		}
		r := e.sc.fresh("fr", "Int")
		goal := imp(fmt.Sprintf("(and (>= %s 0) (< %s %s))", r, r, topE), fmt.Sprintf("(= (select %s %s) (select %s %s))", cur, r, init, r))
		e.checkPost(st, "frame", "preserves."+k+exitSuffix(xi), goal, nil, fmt.Sprintf("%s:%d", fc.File, fc.Line))
	}
}

// loopMayCount: can the body of the loop advance the call counter <g>_calls (g with '.' written
// as '_')? Either it calls something counted under that name, or a callee whose own contract counts it.
func (e *Exec) loopMayCount(l *loopInfo, g string) bool {
	match := func(n string) bool { return n != "" && strings.ReplaceAll(n, ".", "_") == g }
	for b := range l.body {
		for _, ins := range b.Instrs {
			var cc *ssa.CallCommon
			switch x := ins.(type) {
			case *ssa.Call:
				cc = &x.Call
			case *ssa.Go:
				if g == "go" {
					return true
				}
				cc = &x.Call
			case *ssa.Defer:
				cc = &x.Call
			default:
				continue
			}
			var fcC *FuncContract
			if cc.IsInvoke() {
				if match(cc.Method.Name()) || match(qualName(cc)) {
					return true
				}
				fcC = e.eng.ifaceContract(cc)
			} else if cal := cc.StaticCallee(); cal != nil {
				if match(cal.Name()) || match(staticQualName(cal)) {
					return true
				}
				fcC = e.eng.contractFor(cal)
				if fcC == nil && e.eng.inRepo(cal) {
					return true // inlined or havocked callee: may contain counted calls
				}
			} else {
				if prm, ok := cc.Value.(*ssa.Parameter); ok && match(prm.Name()) {
					return true
				}
				if _, isB := cc.Value.(*ssa.Builtin); !isB {
					return true // dynamic call: unknown
				}
			}
			if fcC != nil {
				for _, cl := range fcC.Lists["count_calls"] {
					for _, n := range strings.Fields(cl.Expr) {
						if match(n) {
							return true
						}
					}
				}
			}
		}
	}
	return false
}
