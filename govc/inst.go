package main

// Ground instantiation of universally quantified assumptions.
//
// E-matching on bit-vector index arithmetic is unreliable (the solvers normalise
// `bvadd off q`), so quantified contract facts about array contents frequently time
// out. The engine therefore
//   * instantiates every asserted formula that contains a positive `forall q` over the
//     index sort at every index term the program or the contract uses, and
//   * skolemises positive `forall` in goals itself, adding the skolem constant to the
//     index terms.
// The quantified formula stays in the script; the instances are logical consequences
// of it, so this only helps the solver (sound, not complete).

import (
	"fmt"
	"strings"
)

type idxTerm struct{ term, sort string }

const maxIdxTerms = 48

// sexprChildren splits "(a b (c d))" into ["a","b","(c d)"]; ok=false for atoms.
func sexprChildren(t string) ([]string, bool) {
	t = strings.TrimSpace(t)
	if len(t) < 2 || t[0] != '(' || t[len(t)-1] != ')' {
		return nil, false
	}
	in := t[1 : len(t)-1]
	var out []string
	d := 0
	start := -1
	for i := 0; i < len(in); i++ {
		ch := in[i]
		switch {
		case ch == '(':
			if d == 0 && start < 0 {
				start = i
			}
			d++
		case ch == ')':
			d--
			if d == 0 && start >= 0 && in[start] == '(' {
				out = append(out, in[start:i+1])
				start = -1
			}
		case ch == ' ' || ch == '\n' || ch == '\t':
			if d == 0 && start >= 0 {
				out = append(out, in[start:i])
				start = -1
			}
		case ch == '|' && d == 0 && start < 0:
			// quoted symbol
			j := strings.IndexByte(in[i+1:], '|')
			if j < 0 {
				return nil, false
			}
			out = append(out, in[i:i+j+2])
			i += j + 1
		default:
			if d == 0 && start < 0 {
				start = i
			}
		}
	}
	if start >= 0 {
		out = append(out, in[start:])
	}
	return out, true
}

func isSymChar(b byte) bool {
	return b >= 'a' && b <= 'z' || b >= 'A' && b <= 'Z' || b >= '0' && b <= '9' || b == '_' || b == '.' || b == '!' || b == '|' || b == '#' || b == '$' || b == '-'
}

// substSym replaces whole-symbol occurrences of v by t.
func substSym(s, v, t string) string {
	if !strings.Contains(s, v) {
		return s
	}
	var b strings.Builder
	i := 0
	for i < len(s) {
		j := strings.Index(s[i:], v)
		if j < 0 {
			b.WriteString(s[i:])
			break
		}
		j += i
		end := j + len(v)
		okL := j == 0 || !isSymChar(s[j-1])
		okR := end == len(s) || !isSymChar(s[end])
		b.WriteString(s[i:j])
		if okL && okR {
			b.WriteString(t)
		} else {
			b.WriteString(v)
		}
		i = end
	}
	return b.String()
}

// rewriteForalls replaces positive-polarity `(forall ((q.x S)) body)` nodes for which
// pick(q.x, S) returns a term by body[q.x := term]. pol: +1 positive, -1 negative, 0 unknown.
func rewriteForalls(f string, pol int, pick func(v, sort string) (string, bool)) (string, bool) {
	if !strings.Contains(f, "(forall ((q.") {
		return f, false
	}
	ch, ok := sexprChildren(f)
	if !ok || len(ch) == 0 {
		return f, false
	}
	changed := false
	rebuild := func() string { return "(" + strings.Join(ch, " ") + ")" }
	switch ch[0] {
	case "=>":
		for i := 1; i < len(ch); i++ {
			p := -pol
			if i == len(ch)-1 {
				p = pol
			}
			if r, c := rewriteForalls(ch[i], p, pick); c {
				ch[i] = r
				changed = true
			}
		}
	case "not":
		if len(ch) == 2 {
			if r, c := rewriteForalls(ch[1], -pol, pick); c {
				ch[1] = r
				changed = true
			}
		}
	case "and", "or":
		for i := 1; i < len(ch); i++ {
			if r, c := rewriteForalls(ch[i], pol, pick); c {
				ch[i] = r
				changed = true
			}
		}
	case "ite":
		for i := 2; i < len(ch); i++ {
			if r, c := rewriteForalls(ch[i], pol, pick); c {
				ch[i] = r
				changed = true
			}
		}
	case "forall":
		if pol != 1 || len(ch) != 3 {
			return f, false
		}
		bs, ok := sexprChildren(ch[1])
		if !ok || len(bs) != 1 {
			return f, false
		}
		b1, ok := sexprChildren(bs[0])
		if !ok || len(b1) != 2 {
			return f, false
		}
		v, srt := b1[0], b1[1]
		t, ok := pick(v, srt)
		if !ok {
			return f, false
		}
		body := ch[2]
		if strings.HasPrefix(body, "(! ") {
			if bc, ok := sexprChildren(body); ok && len(bc) >= 2 {
				body = bc[1]
			}
		}
		body = substSym(body, v, t)
		if r, c := rewriteForalls(body, 1, pick); c {
			body = r
		}
		return body, true
	default:
		return f, false
	}
	if changed {
		return rebuild(), true
	}
	return f, false
}

type quantReg struct {
	f      string
	nvar   int // number of positive foralls (nesting or siblings)
	done   map[string]bool
	skOnly bool // instantiated at the skolem constants of goals only (library axioms stated elsewhere with patterns)
}

func countPosForalls(f string) int {
	n := 0
	rewriteForalls(f, 1, func(v, srt string) (string, bool) { n++; return v, true })
	return n
}

// registerQuant records an asserted formula with positive foralls and instantiates it.
// One quantified variable: every index term. Several (nested) variables: tuples of skolem
// constants of the goals (and their images under the permutations of sort.Sort) only.
// splitConj splits an asserted formula along its top-level conjunctions (also under implication
// chains): (=> p (and a b)) gives (=> p a), (=> p b). Each part is instantiated on its own.
func splitConj(f string) []string {
	ch, ok := sexprChildren(f)
	if !ok || len(ch) == 0 {
		return []string{f}
	}
	switch ch[0] {
	case "and":
		var out []string
		for _, c := range ch[1:] {
			out = append(out, splitConj(c)...)
		}
		return out
	case "=>":
		if len(ch) == 3 {
			parts := splitConj(ch[2])
			if len(parts) == 1 {
				return []string{f}
			}
			var out []string
			for _, p := range parts {
				out = append(out, "(=> "+ch[1]+" "+p+")")
			}
			return out
		}
	}
	return []string{f}
}

func (s *Script) registerQuant(f string) {
	if !strings.Contains(f, "(forall ((q.") {
		return
	}
	if parts := splitConj(f); len(parts) > 1 {
		for _, p := range parts {
			s.registerQuant(p)
		}
		return
	}
	n := countPosForalls(f)
	if n == 0 {
		return
	}
	q := &quantReg{f: f, nvar: n, done: map[string]bool{}}
	s.quants = append(s.quants, q)
	if n == 1 {
		for _, it := range s.idxTerms {
			s.emitInstance(q, []idxTerm{it})
		}
	}
}

// registerSkolemOnly records a quantified fact (already asserted in another form) whose instances
// are added at the skolem constants of each goal only.
func (s *Script) registerSkolemOnly(f string) {
	if s.noInst {
		return
	}
	s.quants = append(s.quants, &quantReg{f: f, nvar: 1, done: map[string]bool{}, skOnly: true})
}

func (s *Script) emitInstance(q *quantReg, tup []idxTerm) {
	if g, ok := s.instanceOf(q, tup, true); ok {
		s.emit("(assert " + g + ")")
	}
}

// instanceOf builds the instance of q at the tuple; dedup marks it as produced for the shared script.
func (s *Script) instanceOf(q *quantReg, tup []idxTerm, dedup bool) (string, bool) {
	key := ""
	for _, t := range tup {
		key += t.sort + "|" + t.term + ";"
	}
	if q.done[key] {
		return "", false
	}
	if dedup {
		q.done[key] = true
	}
	i := 0
	bad := false
	g, ok := rewriteForalls(q.f, 1, func(v, srt string) (string, bool) {
		if i >= len(tup) {
			return "", false
		}
		it := tup[i]
		i++
		if srt != it.sort {
			bad = true
			return "", false
		}
		return it.term, true
	})
	if ok && !bad && (len(tup) == 1 || !strings.Contains(g, "(forall ((q.")) {
		return g, true
	}
	return "", false
}

// noteIdx registers a term of an index sort; quantified assumptions are instantiated at it.
func (s *Script) noteIdx(term, sort string) { s.noteIdxF(term, sort, false) }

func (s *Script) noteIdxF(term, sort string, force bool) {
	if s.noInst || strings.Contains(term, "q.") {
		return
	}
	key := sort + "|" + term
	if s.idxSeen == nil {
		s.idxSeen = map[string]bool{}
	}
	if s.idxSeen[key] || (!force && len(s.idxTerms) >= maxIdxTerms) {
		return
	}
	s.idxSeen[key] = true
	it := idxTerm{term, sort}
	s.idxTerms = append(s.idxTerms, it)
	for _, q := range s.quants {
		if q.nvar == 1 && !q.skOnly {
			s.emitInstance(q, []idxTerm{it})
		}
	}
}

// skolemize replaces positive foralls of a goal by their bodies at fresh constants. The
// declarations of the constants and the instances of the quantified assumptions at them (single
// variable: each constant and its images under sort permutations; several variables: tuples of
// them) are returned as lines local to the obligation.
func (s *Script) skolemize(goal string) (string, []string) {
	if s.noInst || !strings.Contains(goal, "(forall ((q.") {
		return goal, nil
	}
	var sks []idxTerm
	var extra []string
	g, ok := rewriteForalls(goal, 1, func(v, srt string) (string, bool) {
		s.n++
		name := fmt.Sprintf("sk.%s!%d", strings.TrimPrefix(v, "q."), s.n)
		extra = append(extra, fmt.Sprintf("(declare-const %s %s)", name, srt))
		sks = append(sks, idxTerm{name, srt})
		return name, true
	})
	if !ok {
		return goal, nil
	}
	terms := append([]idxTerm(nil), sks...)
	var near []idxTerm // neighbours of the skolem indices (shifted copies: append/copy/delete of one element)
	for _, it := range sks {
		if it.sort == s.idx() && s.mode == ModeBV && len(sks) <= 2 {
			near = append(near, idxTerm{fmt.Sprintf("(bvadd %s #x0000000000000001)", it.term), it.sort},
				idxTerm{fmt.Sprintf("(bvsub %s #x0000000000000001)", it.term), it.sort})
		}
	}
	for _, it := range sks {
		if it.sort != s.idx() {
			continue
		}
		for _, pf := range s.permFuns {
			if len(terms) < 12 {
				terms = append(terms, idxTerm{fmt.Sprintf("(%s %s)", pf, it.term), it.sort})
			}
		}
	}
	seen := map[string]bool{}
	add := func(q *quantReg, tup []idxTerm) {
		if inst, ok := s.instanceOf(q, tup, false); ok && !seen[inst] {
			seen[inst] = true
			extra = append(extra, "(assert "+inst+")")
		}
	}
	for _, q := range s.quants {
		switch {
		case q.nvar == 1:
			for _, t := range terms {
				add(q, []idxTerm{t})
			}
			for _, t := range near {
				add(q, []idxTerm{t})
			}
		case q.nvar <= 3:
			var rec func(cur []idxTerm)
			rec = func(cur []idxTerm) {
				if len(cur) == q.nvar {
					add(q, append([]idxTerm(nil), cur...))
					return
				}
				for _, t := range terms {
					rec(append(cur, t))
				}
			}
			rec(nil)
		}
	}
	return g, extra
}

// weakenForalls replaces every positive-polarity engine quantifier of an asserted formula by
// `true` (a weaker assumption). ok=false: a quantifier sits in a negative or unknown position.
func weakenForalls(f string, pol int) (string, bool) {
	if !strings.Contains(f, "(forall ((q.") {
		return f, true
	}
	ch, ok := sexprChildren(f)
	if !ok || len(ch) == 0 {
		return f, false
	}
	polOf := func(i int) (int, bool) {
		switch ch[0] {
		case "assert", "and", "or":
			return pol, true
		case "=>":
			if i == len(ch)-1 {
				return pol, true
			}
			return -pol, true
		case "not":
			return -pol, true
		case "ite":
			if i == 1 {
				return 0, true
			}
			return pol, true
		}
		return 0, false
	}
	if ch[0] == "forall" {
		if pol == 1 {
			return "true", true
		}
		return f, false
	}
	for i := 1; i < len(ch); i++ {
		if !strings.Contains(ch[i], "(forall ((q.") {
			continue
		}
		p, known := polOf(i)
		if !known {
			return f, false
		}
		r, ok := weakenForalls(ch[i], p)
		if !ok {
			return f, false
		}
		ch[i] = r
	}
	return "(" + strings.Join(ch, " ") + ")", true
}
