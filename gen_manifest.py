#!/usr/bin/env python3
# Generates MANIFEST.json from claims.json (kept by hand) — keeps the manifest valid at all times.
import json, subprocess
claims = json.load(open('/verif/claims.json'))
props = [json.loads(l) for l in open('/verif/properties.jsonl')]
ids = [p['id'] for p in props]
try:
    commits = subprocess.check_output(['git','-C','/repo','log','--format=%H','--','verif_contracts.go','internal/murmur/verif_contracts.go','internal/streams/verif_contracts.go','internal/lru/verif_contracts.go','lz4/verif_contracts.go']).decode().split()
except Exception:
    commits = []
m = {
 "version": 1,
 "setup_cmd": "cd /verif/govc && GOFLAGS=-mod=vendor GOPROXY=off GOSUMDB=off GOTOOLCHAIN=local go build -o /verif/bin/govc .",
 "hooks": {
  "guard": "verif",
  "enable": "-tags verif (informational: the hooks are comment-only contract files verif_contracts.go read by govc; they change nothing in the compiled package)",
  "baseline_off_cmd": "for m in . lz4; do (cd /repo/$m && GOFLAGS=-mod=mod GOPROXY=off GOSUMDB=off GOTOOLCHAIN=local go test -json -vet=off -count=1 -timeout 25m ./...); done",
  "source_commits": commits,
  "add_only": True
 },
 "engines": [{"name":"govc","path":"/verif/govc","serves_properties":[c for c in ids if c in claims['claimed']],
   "kind_free_text":"contract-based deductive verifier written for this task: go/packages+go/ssa -> weakest-precondition style VCs (SMT-LIB2), contracts in //go:build verif comment files, discharged by z3 5.1.0 / z3 4.8.12 / cvc5 1.0.3"}],
 "checks": [],
 "notes": claims.get('notes',''),
 "not_applicable": []
}
for i in ids:
    if i in claims['claimed']:
        c = claims['claimed'][i]
        m['checks'].append({
          "property_id": i,
          "quick_cmd": f"./bin/govc check -p {i} -tier quick",
          "thorough_cmd": f"./bin/govc check -p {i} -tier thorough",
          "evidence_file": f"evidence/{i}.json",
          "replay_cmd_template": "./bin/govc replay {path}",
          "engine": "govc",
          "level_claimed": {"category":"proof","text":c['text'],"design_ref":f"DESIGN.md §4 {i}"},
          "level_note": c['note'],
          "technique": "contract-based deductive verification: function contracts (//@ requires/ensures/invariant) on the real code, VCs generated from go/ssa, discharged by z3/cvc5"
        })
    else:
        m['not_applicable'].append({"property_id": i, "reason": claims['not_applicable'].get(i, "no check built yet (work in progress; see DESIGN.md §8)")})
json.dump(m, open('/verif/MANIFEST.json','w'), indent=1)
print("claimed:", [c['property_id'] for c in m['checks']])
