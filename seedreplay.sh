#!/bin/bash
# usage: seedreplay.sh <seed-dir-name>...   — applies each archived seed to a scratch copy and runs its property's check;
# prints how many violations were reproduced by replaying the solver's model on the real code
D=/var/tmp/govc-mut/repo
mkdir -p /var/tmp/govc-mut
for s in "$@"; do
  P=${s%%-*}
  rsync -a --delete --exclude=.git /repo/ $D/
  (cd $D && patch -p1 < /verif/seeded/$s/patch.diff >/dev/null 2>&1) || { echo "$s: patch does not apply"; continue; }
  OUT=$(GOVC_REPO=$D /verif/bin/govc check -p $P -no-evidence 2>&1 | grep "^VIOLATION")
  T=$(echo "$OUT" | grep -c "^VIOLATION")
  N=$(echo "$OUT" | grep -c "no-failing-input-found")
  echo "$s: violations=$T reproduced=$((T-N))"
  echo "$OUT" | grep -v "no-failing-input-found" | sed 's/replay=[^ ]* //' | cut -c1-160 | head -3
done
