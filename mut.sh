#!/bin/bash
# usage: mut.sh <prop> <file> <python-expr-old> <new>   — apply a textual mutation on a scratch copy and run the check
set -e
PROP=$1; FILE=$2; OLD=$3; NEW=$4
D=/var/tmp/govc-mut/repo
mkdir -p /var/tmp/govc-mut
rsync -a --delete --exclude=.git /repo/ $D/
python3 - "$D/$FILE" "$OLD" "$NEW" <<'PY'
import sys
p,old,new=sys.argv[1:4]
s=open(p).read()
assert s.count(old)>=1, "pattern not found"
s=s.replace(old,new,1)
open(p,'w').write(s)
PY
(cd $D && GOFLAGS=-mod=mod GOPROXY=off go build ./... ) || { echo "MUTANT DOES NOT COMPILE"; exit 3; }
GOVC_REPO=$D /verif/bin/govc check -p $PROP -no-evidence 2>&1 | grep -v "^NOTE" | cut -c1-260 | tail -8
