#!/usr/bin/env python3
# prints the replay outcome recorded in every replay file of a property
import json,glob,sys
for f in sorted(glob.glob('/verif/replay/%s/*.json'%sys.argv[1])):
    try: d=json.load(open(f))
    except Exception: continue
    r=d.get('replay')
    if not r: continue
    print(d['obligation'].replace('github.com/gocql/gocql.',''),'|',d['solver_status'],'|',r.get('confirmed'),'|',r.get('reason','')[:200])
    if len(sys.argv)>2: print(r.get('output','')[:1200])
