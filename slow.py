#!/usr/bin/env python3
# usage: slow.py Cxx [n] — slowest obligations of the last run of a property (from its evidence file)
import json,sys
d=json.load(open('/verif/evidence/%s.json'%sys.argv[1]))
n=int(sys.argv[2]) if len(sys.argv)>2 else 15
a=d['coverage']['all_obligations']
print('wall',round(d['wall_s'],1),'solver',round(sum(x['seconds'] for x in a),1),'n',len(a))
for x in sorted(a,key=lambda x:-x['seconds'])[:n]:
    print(round(x['seconds'],1),x['status'],x['solver'],x['name'].replace('github.com/gocql/gocql.',''))
