#!/bin/bash
# usage: seedcheck.sh <worktree> <prop> <n> <demo-dest-dir-relative> [props-to-check...]
# 1. confirms the seeded change in the scratch worktree (build, baseline tests, demo fails with / passes without)
# 2. applies it to /repo, runs the checks, reverts /repo
export GOFLAGS=-mod=mod GOPROXY=off GOSUMDB=off GOTOOLCHAIN=local
WT=$1; PROP=$2; N=$3; DEST=$4; shift 4
CHECKS=${@:-$PROP}
S=$WT/seeded/$N
cd $WT || exit 9
git apply --check $S/patch.diff || { echo "PATCH DOES NOT APPLY"; exit 9; }
git apply $S/patch.diff
BUILD=ok; go build ./... >/dev/null 2>&1 || BUILD=FAIL
PKGS=". ./internal/streams ./internal/murmur ./internal/lru"
BASE=ok; go test -vet=off -count=1 $PKGS >/tmp/seed_base.log 2>&1 || BASE=FAIL
cp $S/demo_test.go $DEST/zz_seeded_demo_test.go
DEMO_WITH=pass; go test -vet=off -count=1 -timeout 120s -run '^TestSeededDemo$' ./$DEST >/tmp/seed_with.log 2>&1 || DEMO_WITH=fail
git apply -R $S/patch.diff
DEMO_WITHOUT=pass; go test -vet=off -count=1 -timeout 120s -run '^TestSeededDemo$' ./$DEST >/tmp/seed_without.log 2>&1 || DEMO_WITHOUT=fail
rm -f $DEST/zz_seeded_demo_test.go
echo "seed $PROP/$N: build=$BUILD baseline=$BASE demo_with_change=$DEMO_WITH demo_without=$DEMO_WITHOUT"
D=/var/tmp/govc-seedcheck/repo; mkdir -p /var/tmp/govc-seedcheck; rsync -a --delete --exclude=.git ${GOVC_SRC:-/repo}/ $D/; (cd $D && patch -p1 < $S/patch.diff >/dev/null) || { echo "does not apply to /repo"; exit 9; }
for p in $CHECKS; do
  OUT=$(cd /verif && GOVC_REPO=$D ${GOVC_BIN:-./bin/govc} check -p $p -no-evidence 2>&1)
  echo "$OUT" | grep -c "^VIOLATION" | sed "s/^/  check $p violations: /"
  echo "$OUT" | grep "^VIOLATION" | sed 's/replay=[^ ]* //' | cut -c1-220 | head -4 | sed 's/^/    /'
done

rm -rf /var/tmp/govc-seedcheck
