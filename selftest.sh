#!/bin/bash
# Must-fail corpus: every archived seeded change (seeded/<prop>-<n>/patch.diff) is applied to a scratch copy of
# /repo and the property's check must report at least one violation. Usage: selftest.sh [seed-name...]
# (default: all). Prints one line per seed and a summary; exit 1 if a seed that is recorded as detected passes.
S=/var/tmp/govc-selftest-$$; D=$S/repo
mkdir -p $S
SEEDS="$@"
[ -z "$SEEDS" ] && SEEDS=$(ls /verif/seeded | grep -v PROMPT | sort)
bad=0; n=0
for s in $SEEDS; do
  P=${s%%-*}
  [ -f /verif/seeded/$s/patch.diff ] || continue
  rsync -a --delete --exclude=.git /repo/ $D/
  (cd $D && patch -p1 < /verif/seeded/$s/patch.diff >/dev/null 2>&1) || { echo "$s: patch no longer applies (code moved)"; continue; }
  OUT=$(GOVC_REPO=$D /verif/bin/govc check -p $P -no-evidence 2>&1 | grep "^VIOLATION")
  T=$(echo "$OUT" | grep -c "^VIOLATION")
  R=$((T - $(echo "$OUT" | grep -c "no-failing-input-found")))
  n=$((n+1))
  if [ "$T" -eq 0 ]; then
    ST=$(python3 -c "import json;print(json.load(open('/verif/seeded/$s/meta.json')).get('status',''))" 2>/dev/null)
    echo "$s: NOT DETECTED (recorded status: $ST)"
    case "$ST" in detected*) bad=$((bad+1));; esac
  else
    echo "$s: detected ($T violations, $R reproduced on the real code)"
  fi
done
rm -rf $S
echo "selftest: $n seeds, $bad regressions"
[ $bad -eq 0 ]
