package gocql

// BOUNDED stand-in (not a proof): encBigInt2C / decBigInt2C use math/big, which is
// outside the verifier's reach. Exhaustive comparison against an independent
// reference for all |n| <= 2^17 and for +-2^k, +-(2^k +- 1), k <= 130.

import (
	"bytes"
	"fmt"
	"math/big"
	"testing"
)

// refTwosComplement: minimal-length big-endian two's complement (CQL varint / decimal unscaled value).
func refTwosComplement(n *big.Int) []byte {
	// find the least number of bytes L with -2^(8L-1) <= n < 2^(8L-1)
	for l := 1; ; l++ {
		lim := new(big.Int).Lsh(big.NewInt(1), uint(8*l-1))
		neg := new(big.Int).Neg(lim)
		if n.Cmp(neg) >= 0 && n.Cmp(lim) < 0 {
			v := new(big.Int).Set(n)
			if v.Sign() < 0 {
				v.Add(v, new(big.Int).Lsh(big.NewInt(1), uint(8*l)))
			}
			b := v.Bytes()
			out := make([]byte, l)
			copy(out[l-len(b):], b)
			return out
		}
	}
}

func TestVerifBoundedBigInt2C(t *testing.T) {
	cases := 0
	check := func(n *big.Int) bool {
		cases++
		got := encBigInt2C(new(big.Int).Set(n))
		want := refTwosComplement(n)
		if !bytes.Equal(got, want) {
			fmt.Printf("BOUNDED-FAIL C12.encBigInt2C n=%s got=%x want=%x\n", n.String(), got, want)
			return false
		}
		back := decBigInt2C(want, nil)
		if back.Cmp(n) != 0 {
			fmt.Printf("BOUNDED-FAIL C12.decBigInt2C bytes=%x got=%s want=%s\n", want, back.String(), n.String())
			return false
		}
		return true
	}
	ok := true
	for i := int64(-(1 << 17)); i <= 1<<17 && ok; i++ {
		ok = check(big.NewInt(i))
	}
	for k := uint(0); k <= 130 && ok; k++ {
		p := new(big.Int).Lsh(big.NewInt(1), k)
		for _, d := range []int64{-1, 0, 1} {
			v := new(big.Int).Add(p, big.NewInt(d))
			ok = ok && check(v) && check(new(big.Int).Neg(v))
		}
	}
	if ok {
		fmt.Printf("BOUNDED-OK C12.bigint2c cases=%d bound=|n|<=2^17 and +-2^k+-1 for k<=130\n", cases)
	} else {
		t.Fail()
	}
}
