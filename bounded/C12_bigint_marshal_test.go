package gocql

// BOUNDED stand-in (not a proof): the big.Int conversions of Marshal for varint (arbitrary precision,
// minimal two's complement) and for bigint / counter (exactly 8 bytes, error outside the int64 range) go
// through math/big, which is outside the verifier's reach. Checked for all |n| <= 2^12 and for +-2^k,
// +-(2^k +- 1), k <= 130, against the reference encoder of C12_bigint2c_test.go and decBigInt.

import (
	"bytes"
	"fmt"
	"math/big"
	"testing"
)

func TestVerifBoundedBigIntMarshal(t *testing.T) {
	cases := 0
	vi := NativeType{proto: 4, typ: TypeVarint}
	check := func(n *big.Int) bool {
		cases++
		got, err := Marshal(vi, new(big.Int).Set(n))
		if want := refTwosComplement(n); err != nil || !bytes.Equal(got, want) {
			fmt.Printf("BOUNDED-FAIL C12.varint-bigInt n=%s got=%x err=%v want=%x\n", n.String(), got, err, want)
			return false
		}
		for _, ty := range []Type{TypeBigInt, TypeCounter} {
			got, err := Marshal(NativeType{proto: 4, typ: ty}, new(big.Int).Set(n))
			if n.IsInt64() {
				if err != nil || len(got) != 8 || decBigInt(got) != n.Int64() {
					fmt.Printf("BOUNDED-FAIL C12.bigint-bigInt type=%v n=%s got=%x err=%v want the 8-byte encoding\n", ty, n.String(), got, err)
					return false
				}
			} else if err == nil {
				fmt.Printf("BOUNDED-FAIL C12.bigint-bigInt type=%v n=%s got=%x, want an error (not an int64)\n", ty, n.String(), got)
				return false
			}
		}
		return true
	}
	ok := true
	for i := int64(-(1 << 12)); i <= 1<<12 && ok; i++ {
		ok = check(big.NewInt(i))
	}
	for k := uint(0); k <= 130 && ok; k++ {
		p := new(big.Int).Lsh(big.NewInt(1), k)
		for _, d := range []int64{-1, 0, 1} {
			v := new(big.Int).Add(p, big.NewInt(d))
			ok = ok && check(v) && check(new(big.Int).Neg(v))
		}
	}
	if ok {
		fmt.Printf("BOUNDED-OK C12.bigint-marshal cases=%d bound=|n|<=2^12 and +-2^k+-1 for k<=130, varint and bigint/counter columns\n", cases)
	} else {
		t.Fail()
	}
}
