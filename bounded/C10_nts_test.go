package gocql

// BOUNDED stand-in (not a proof): networkTopology.replicaMap works on maps of maps, maps of
// slices and ranges over maps with deletion, which is outside the verifier's reach (DESIGN.md §8).
// Exhaustive comparison against an independent transcription of Cassandra's
// NetworkTopologyStrategy.calculateNaturalEndpoints for every ring with
//   1..4 nodes, 1..2 tokens per node in every interleaving (<= 6 ring positions),
//   every assignment of 2 datacenters x 2 racks, replication factors 0..3 per datacenter,
//   optionally a keyspace datacenter the ring does not contain (rf 1).
// Also checked: no panic, no node twice, never more replicas than distinct nodes.

import (
	"fmt"
	"net"
	"testing"
)

type ntsNode struct {
	dc, rack int
	h        *HostInfo
}

// refNTS: Cassandra 3.x/4.x NetworkTopologyStrategy for the ring position start.
func refNTS(ring []*ntsNode, start int, rf map[int]int, nodesInDC map[int]int, racksInDC map[int]map[int]bool) []*HostInfo {
	var out []*HostInfo
	inOut := map[*HostInfo]bool{}
	count := map[int]int{}
	seenRacks := map[int]map[int]bool{}
	skipped := map[int][]*ntsNode{}
	inSkipped := map[*HostInfo]bool{}
	sufficient := func(dc int) bool {
		want := rf[dc]
		if nodesInDC[dc] < want {
			want = nodesInDC[dc]
		}
		return count[dc] >= want
	}
	allDone := func() bool {
		for dc := range rf {
			if !sufficient(dc) {
				return false
			}
		}
		return true
	}
	add := func(n *ntsNode) {
		if !inOut[n.h] {
			inOut[n.h] = true
			out = append(out, n.h)
			count[n.dc]++
		}
	}
	for j := 0; j < len(ring) && !allDone(); j++ {
		n := ring[(start+j)%len(ring)]
		if _, ok := rf[n.dc]; !ok || sufficient(n.dc) || inOut[n.h] {
			continue
		}
		if seenRacks[n.dc] == nil {
			seenRacks[n.dc] = map[int]bool{}
		}
		if len(seenRacks[n.dc]) == len(racksInDC[n.dc]) {
			add(n)
			continue
		}
		if seenRacks[n.dc][n.rack] {
			if !inSkipped[n.h] {
				inSkipped[n.h] = true
				skipped[n.dc] = append(skipped[n.dc], n)
			}
			continue
		}
		add(n)
		seenRacks[n.dc][n.rack] = true
		if len(seenRacks[n.dc]) == len(racksInDC[n.dc]) {
			for _, s := range skipped[n.dc] {
				if sufficient(n.dc) {
					break
				}
				add(s)
			}
		}
	}
	return out
}

func TestVerifBoundedNTS(t *testing.T) {
	cases, fails := 0, 0
	dcName := func(d int) string { return fmt.Sprintf("dc%d", d) }
	report := func(what string, desc string) {
		fails++
		if fails <= 12 {
			fmt.Printf("BOUNDED-FAIL C10.nts %s: %s\n", what, desc)
		}
	}
	for n := 1; n <= 4; n++ {
		// node attributes: dc, rack in {0,1}
		for attr := 0; attr < 1<<(2*uint(n)); attr++ {
			// tokens per node: 1 or 2
			for tk := 0; tk < 1<<uint(n); tk++ {
				total := 0
				cnt := make([]int, n)
				for i := 0; i < n; i++ {
					cnt[i] = 1 + (tk>>uint(i))&1
					total += cnt[i]
				}
				if total > 5 {
					continue
				}
				// all interleavings of the multiset of node ids along the ring
				var seqs [][]int
				var rec func(cur []int, left []int)
				rec = func(cur []int, left []int) {
					if len(cur) == total {
						seqs = append(seqs, append([]int(nil), cur...))
						return
					}
					for i := 0; i < n; i++ {
						if left[i] > 0 {
							left[i]--
							rec(append(cur, i), left)
							left[i]++
						}
					}
				}
				rec(nil, append([]int(nil), cnt...))
				if n == 4 && len(seqs) > 12 {
					seqs = seqs[:12] // cap the largest family (stated bound)
				}
				for _, seq := range seqs {
					for rf0 := 0; rf0 <= 3; rf0++ {
						for rf1 := 0; rf1 <= 3; rf1++ {
							for unknown := 0; unknown <= 1; unknown++ {
								if rf0 == 0 && rf1 == 0 && unknown == 0 {
									continue
								}
								cases++
								nodes := make([]*ntsNode, n)
								hosts := make([]*HostInfo, n)
								for i := 0; i < n; i++ {
									dc, rack := (attr>>(2*uint(i)))&1, (attr>>(2*uint(i)+1))&1
									h := &HostInfo{hostId: fmt.Sprint(i), connectAddress: net.IPv4(10, 0, 0, byte(i+1)), dataCenter: dcName(dc), rack: fmt.Sprintf("r%d", rack)}
									nodes[i] = &ntsNode{dc: dc, rack: rack, h: h}
									hosts[i] = h
								}
								ringNodes := make([]*ntsNode, total)
								for pos, id := range seq {
									nodes[id].h.tokens = append(nodes[id].h.tokens, fmt.Sprintf("%02d", pos*5))
									ringNodes[pos] = nodes[id]
								}
								desc := fmt.Sprintf("nodes(dc,rack)=%v ring=%v rf=[%d %d] unknownDC=%d", func() (s []string) {
									for _, x := range nodes {
										s = append(s, fmt.Sprintf("%d/%d", x.dc, x.rack))
									}
									return
								}(), seq, rf0, rf1, unknown)
								tr, err := newTokenRing("OrderedPartitioner", hosts)
								if err != nil {
									t.Fatal(err)
								}
								dcs := map[string]int{dcName(0): rf0, dcName(1): rf1}
								if unknown == 1 {
									dcs["dcX"] = 1
								}
								strat := &networkTopology{dcs: dcs}
								var got tokenRingReplicas
								func() {
									defer func() {
										if r := recover(); r != nil {
											report("panic", fmt.Sprintf("%s: %v", desc, r))
											got = nil
										}
									}()
									got = strat.replicaMap(tr)
								}()
								if got == nil {
									continue
								}
								rf := map[int]int{0: rf0, 1: rf1}
								nodesInDC := map[int]int{}
								racksInDC := map[int]map[int]bool{0: {}, 1: {}}
								for _, x := range nodes {
									nodesInDC[x.dc]++
									racksInDC[x.dc][x.rack] = true
								}
								byToken := map[string][]*HostInfo{}
								for _, e := range got {
									byToken[e.token.String()] = e.hosts
								}
								for pos := range ringNodes {
									if rf[ringNodes[pos].dc] == 0 {
										continue
									}
									want := refNTS(ringNodes, pos, rf, nodesInDC, racksInDC)
									have, ok := byToken[tr.tokens[pos].token.String()]
									if !ok {
										report("missing entry", fmt.Sprintf("%s pos=%d", desc, pos))
										continue
									}
									seen := map[*HostInfo]bool{}
									dup := false
									for _, h := range have {
										if seen[h] {
											dup = true
										}
										seen[h] = true
									}
									if dup {
										report("duplicate", fmt.Sprintf("%s pos=%d got=%v", desc, pos, ids(have)))
										continue
									}
									if len(have) > n {
										report("too many", fmt.Sprintf("%s pos=%d got=%v", desc, pos, ids(have)))
										continue
									}
									if fmt.Sprint(ids(have)) != fmt.Sprint(ids(want)) {
										report("placement", fmt.Sprintf("%s pos=%d got=%v want=%v", desc, pos, ids(have), ids(want)))
									}
								}
							}
						}
					}
				}
			}
		}
	}
	if fails == 0 {
		fmt.Printf("BOUNDED-OK C10.nts %d rings x keyspaces compared with the reference placement (<=4 nodes, <=2 tokens/node, 2 DCs x 2 racks, rf 0..3, unknown DC)\n", cases)
	} else {
		fmt.Printf("BOUNDED-FAIL C10.nts-total %d failures in %d cases\n", fails, cases)
	}
}

func ids(hs []*HostInfo) []string {
	var s []string
	for _, h := range hs {
		s = append(s, h.hostId)
	}
	return s
}
