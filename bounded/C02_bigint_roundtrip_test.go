package gocql

// BOUNDED stand-in (not a proof): the arbitrary-precision values of C02 - varint through *big.Int and
// decimal through *inf.Dec - are converted by math/big (encBigInt2C / decBigInt2C), which is outside the
// verifier's reach. Checked here as the property states it: Marshal then Unmarshal gives back an equal value,
// for all |n| <= 2^12 and for +-2^k, +-(2^k +- 1), k <= 130; decimals with scales -2, 0, 3; and varint into
// int64 whenever the value fits.

import (
	"fmt"
	"math/big"
	"testing"

	"gopkg.in/inf.v0"
)

func TestVerifBoundedBigRoundTrip(t *testing.T) {
	cases := 0
	vi := NativeType{proto: 4, typ: TypeVarint}
	de := NativeType{proto: 4, typ: TypeDecimal}
	check := func(n *big.Int) bool {
		cases++
		data, err := Marshal(vi, new(big.Int).Set(n))
		if err != nil {
			fmt.Printf("BOUNDED-FAIL C02.varint-roundtrip n=%s marshal err=%v\n", n.String(), err)
			return false
		}
		var back big.Int
		if err := Unmarshal(vi, data, &back); err != nil || back.Cmp(n) != 0 {
			fmt.Printf("BOUNDED-FAIL C02.varint-roundtrip n=%s bytes=%x came back as %s err=%v\n", n.String(), data, back.String(), err)
			return false
		}
		if n.IsInt64() {
			var i int64
			if err := Unmarshal(vi, data, &i); err != nil || i != n.Int64() {
				fmt.Printf("BOUNDED-FAIL C02.varint-roundtrip n=%s bytes=%x came back as int64 %d err=%v\n", n.String(), data, i, err)
				return false
			}
		}
		for _, scale := range []inf.Scale{-2, 0, 3} {
			d := inf.NewDecBig(new(big.Int).Set(n), scale)
			data, err := Marshal(de, d)
			if err != nil {
				fmt.Printf("BOUNDED-FAIL C02.decimal-roundtrip unscaled=%s scale=%d marshal err=%v\n", n.String(), scale, err)
				return false
			}
			var got inf.Dec
			if err := Unmarshal(de, data, &got); err != nil || got.Scale() != scale || got.UnscaledBig().Cmp(n) != 0 {
				fmt.Printf("BOUNDED-FAIL C02.decimal-roundtrip unscaled=%s scale=%d bytes=%x came back as %s err=%v\n", n.String(), scale, data, got.String(), err)
				return false
			}
		}
		return true
	}
	ok := true
	for i := int64(-(1 << 12)); i <= 1<<12 && ok; i++ {
		ok = check(big.NewInt(i))
	}
	for k := uint(0); k <= 130 && ok; k++ {
		p := new(big.Int).Lsh(big.NewInt(1), k)
		for _, d := range []int64{-1, 0, 1} {
			v := new(big.Int).Add(p, big.NewInt(d))
			ok = ok && check(v) && check(new(big.Int).Neg(v))
		}
	}
	if ok {
		fmt.Printf("BOUNDED-OK C02.big-roundtrip cases=%d bound=|n|<=2^12 and +-2^k+-1 for k<=130, varint via big.Int/int64 and decimal via inf.Dec (scales -2,0,3)\n", cases)
	} else {
		t.Fail()
	}
}
