#!/usr/bin/env python3
# usage: core.py file.smt2 [T] — ground variant (quantifiers -> true), unsat core, time of the core alone
import re,subprocess,time,sys
F=sys.argv[1]; T=int(sys.argv[2]) if len(sys.argv)>2 else 120
lines=open(F).read().split('\n')
def drop(l):
    while True:
        i=l.find('(forall ((q.')
        if i<0: return l
        d=0
        for j in range(i,len(l)):
            if l[j]=='(': d+=1
            elif l[j]==')':
                d-=1
                if d==0: break
        l=l[:i]+'true'+l[j+1:]
out=['(set-option :produce-unsat-cores true)'];n=0
for l in lines:
    if l.startswith('(assert ') and l.endswith(')'):
        l=drop(l)
        out.append('(assert (! %s :named a%d))'%(l[len('(assert '):-1],n));n+=1
    elif l.startswith('(get-value') or l.startswith('(set-option :produce-models'): continue
    else: out.append(l)
out.append('(get-unsat-core)')
open('/var/tmp/core_in.smt2','w').write('\n'.join(out))
t=time.time()
r=subprocess.run(['z3-new','-T:%d'%T,'/var/tmp/core_in.smt2'],capture_output=True,text=True).stdout.split('\n')
print(r[0],round(time.time()-t,1))
if r[0]!='unsat': sys.exit()
core=set(r[1].strip('() ').split())
o2=[]
for l in out:
    m=re.search(r':named (a\d+)\)\)$',l)
    if m and m.group(1) not in core: continue
    o2.append(l)
open('/var/tmp/core_only.smt2','w').write('\n'.join(o2))
t=time.time()
r=subprocess.run(['z3-new','-T:%d'%T,'/var/tmp/core_only.smt2'],capture_output=True,text=True).stdout.split('\n')
print('core only:',r[0],round(time.time()-t,1),len(core))
for l in o2:
    if ':named' in l: print(l[:500]);print()
