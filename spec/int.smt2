; Spec functions, mathematical-integer face (mode int).

;; block psum
; prefix sum of the lengths of the first k slices of a slice of slices
; (net.Buffers): defined by recursion on k; instances via `use`.
;   axiom psum_base_ax : forall a o.      psum(a,o,0) = 0
;   axiom psum_step_ax : forall a o k.    k >= 0 => psum(a,o,k+1) = psum(a,o,k) + len(a[o+k])
;   axiom psum_mono_ax : forall a o j k.  0 <= j <= k and all lengths >= 0 => psum(a,o,j) <= psum(a,o,k)
;                        (lemma by induction on k-j; lengths are >= 0 by the slice type invariant; NOT machine-checked)
;   axiom psum_ext_ax  : forall a o b p k. (forall j<k. len(a[o+j]) = len(b[p+j])) => psum(a,o,k) = psum(b,p,k)
;                        (lemma by induction on k; NOT machine-checked)
; sig psum(slice, int) int64
; sig psum_base_ax(slice) bool
; sig psum_step_ax(slice, int) bool
; sig psum_mono_ax(slice, int, int) bool
; sig psum_ext_ax(slice, slice, int) bool
(declare-fun psum ((Array Int Slice) Int Int) Int)
(define-fun psum_base_ax ((a (Array Int Slice)) (o Int)) Bool (= (psum a o 0) 0))
(define-fun psum_step_ax ((a (Array Int Slice)) (o Int) (k Int)) Bool
  (=> (>= k 0) (= (psum a o (+ k 1)) (+ (psum a o k) (s-len (select a (+ o k)))))))
(define-fun psum_mono_ax ((a (Array Int Slice)) (o Int) (j Int) (k Int)) Bool
  (=> (and (<= 0 j) (<= j k)) (<= (psum a o j) (psum a o k))))
(define-fun psum_ext_ax ((a (Array Int Slice)) (o Int) (b (Array Int Slice)) (p Int) (k Int)) Bool
  (=> (forall ((j Int)) (=> (and (<= 0 j) (< j k)) (= (s-len (select a (+ o j))) (s-len (select b (+ p j))))))
      (= (psum a o k) (psum b p k))))

;; block chanidx
; position of a channel in a slice of pairwise distinct channels (Skolem function of
; the distinctness precondition: if the elements are pairwise distinct such a function exists)
; sig chanidx(any) int
(declare-fun chanidx (Int) Int)

