; Spec functions, bit-vector face (exact Go widths). Written from the CQL
; native-protocol spec / RFC 4122 / Cassandra's algorithms — never from gocql.
; A "bytes" parameter is an (array, offset) pair.

;; block be
; sig be16(bytes, int) uint16
; sig be32(bytes, int) uint32
; sig be64(bytes, int) uint64
(define-fun be16 ((a (Array (_ BitVec 64) (_ BitVec 8))) (o (_ BitVec 64)) (i (_ BitVec 64))) (_ BitVec 16)
  (concat (select a (bvadd o i)) (select a (bvadd o i #x0000000000000001))))
(define-fun be32 ((a (Array (_ BitVec 64) (_ BitVec 8))) (o (_ BitVec 64)) (i (_ BitVec 64))) (_ BitVec 32)
  (concat (select a (bvadd o i)) (select a (bvadd o i #x0000000000000001)) (select a (bvadd o i #x0000000000000002)) (select a (bvadd o i #x0000000000000003))))
(define-fun be64 ((a (Array (_ BitVec 64) (_ BitVec 8))) (o (_ BitVec 64)) (i (_ BitVec 64))) (_ BitVec 64)
  (concat (be32 a o i) (be32 a o (bvadd i #x0000000000000004))))

;; block le
; sig le64(bytes, int) uint64
(define-fun le64 ((a (Array (_ BitVec 64) (_ BitVec 8))) (o (_ BitVec 64)) (i (_ BitVec 64))) (_ BitVec 64)
  (concat (select a (bvadd o i #x0000000000000007)) (select a (bvadd o i #x0000000000000006)) (select a (bvadd o i #x0000000000000005)) (select a (bvadd o i #x0000000000000004))
          (select a (bvadd o i #x0000000000000003)) (select a (bvadd o i #x0000000000000002)) (select a (bvadd o i #x0000000000000001)) (select a (bvadd o i))))

;; block umul
; 64-bit multiplication as an uninterpreted function: the proofs that use it hold
; for every binary function, in particular for bvmul (sound abstraction). Functions
; under contract opt in with `abstract_mul int64`; the constant operand comes second.
(declare-fun umul64 ((_ BitVec 64) (_ BitVec 64)) (_ BitVec 64))

;; block srem
; signed 64-bit remainder by a non-constant divisor as an uninterpreted function;
; every use site asserts 0 <= a, 0 < b ==> 0 <= r < b and (a < b ==> r = a), which bvsrem satisfies
; (sound abstraction; functions under contract opt in with `abstract_rem int`).
(declare-fun srem64 ((_ BitVec 64) (_ BitVec 64)) (_ BitVec 64))

;; block policy
; Host selection policies (C11): what an interface value stands for.
;  sel_info(s)  the host a SelectedHost denotes (Info() returns it on every call)
;  tier_max(t)  MaxHostTier() of a HostTierer (HostTier never exceeds it)
; sig sel_info(any) *HostInfo
; sig tier_max(any) uint
(declare-fun sel_info (Iface) Int)
(declare-fun tier_max (Iface) (_ BitVec 64))
;  tok_less(a,b)  the ordering of ring tokens (token.Less of the partitioner's token type)
; sig tok_less(any, any) bool
(declare-fun tok_less (Iface Iface) Bool)

;; block ip
; net.IP.IsUnspecified / net.IP.String as uninterpreted functions of the address value (the slice
; header: backing array identity, offset, length). Assumption: the bytes of an IP address are not
; modified after the address has been created (IP values are immutable by convention), so the
; functions do not depend on the byte memory. The driver only branches on / uses these as map keys.
; sig ip_unspec(any) bool
; sig ip_str(any) string
(declare-fun ip_unspec (Slice) Bool)
(declare-fun ip_str (Slice) Str)

;; block mm3
; Cassandra org.apache.cassandra.utils.MurmurHash.hash3_x64_128 (seed 0), first word.
; The running state (h1,h2) is packed into 128 bits: h1 in the high half.
; sig mm3_rotl(int64, int64) int64
; sig mm3_fmix(int64) int64
; sig mm3_fold1(bytes, int) int64
; sig mm3_fold2(bytes, int) int64
; sig mm3_h1(bytes, int) int64
; sig mm3_mixk1(int64) int64
; sig mm3_mixk2(int64) int64
(define-fun mm3_rotl ((x (_ BitVec 64)) (r (_ BitVec 64))) (_ BitVec 64)
  (bvor (bvshl x r) (bvlshr x (bvsub #x0000000000000040 r))))
(define-fun mm3_fmix ((k0 (_ BitVec 64))) (_ BitVec 64)
  (let ((k1 (bvxor k0 (bvlshr k0 #x0000000000000021))))
  (let ((k2 (umul64 k1 #xff51afd7ed558ccd)))
  (let ((k3 (bvxor k2 (bvlshr k2 #x0000000000000021))))
  (let ((k4 (umul64 k3 #xc4ceb9fe1a85ec53)))
    (bvxor k4 (bvlshr k4 #x0000000000000021)))))))
(define-fun mm3_mixk1 ((k (_ BitVec 64))) (_ BitVec 64)
  (umul64 (mm3_rotl (umul64 k #x87c37b91114253d5) #x000000000000001f) #x4cf5ad432745937f))
(define-fun mm3_mixk2 ((k (_ BitVec 64))) (_ BitVec 64)
  (umul64 (mm3_rotl (umul64 k #x4cf5ad432745937f) #x0000000000000021) #x87c37b91114253d5))
(define-fun mm3_pack ((h1 (_ BitVec 64)) (h2 (_ BitVec 64))) (_ BitVec 128) (concat h1 h2))
(define-fun mm3_step ((h (_ BitVec 128)) (k1 (_ BitVec 64)) (k2 (_ BitVec 64))) (_ BitVec 128)
  (let ((h1 ((_ extract 127 64) h)) (h2 ((_ extract 63 0) h)))
  (let ((h1a (bvxor h1 (mm3_mixk1 k1))))
  (let ((h1b (bvadd (mm3_rotl h1a #x000000000000001b) h2)))
  (let ((h1c (bvadd (umul64 h1b #x0000000000000005) #x0000000052dce729)))
  (let ((h2a (bvxor h2 (mm3_mixk2 k2))))
  (let ((h2b (bvadd (mm3_rotl h2a #x000000000000001f) h1c)))
  (let ((h2c (bvadd (umul64 h2b #x0000000000000005) #x0000000038495ab5)))
    (concat h1c h2c)))))))))
(declare-fun mm3_fold ((Array (_ BitVec 64) (_ BitVec 8)) (_ BitVec 64) (_ BitVec 64)) (_ BitVec 128))
; mm3_fold is defined by recursion on the block count; the two defining
; equations are available as instances (axiom schemas, instantiated by `use`):
;   axiom mm3_fold_base_ax : forall a o.   mm3_fold_base_ax(a,o)
;   axiom mm3_fold_step_ax : forall a o i. mm3_fold_step_ax(a,o,i)
; sig mm3_fold_base_ax(bytes) bool
; sig mm3_fold_step_ax(bytes, int) bool
(define-fun mm3_fold_base_ax ((a (Array (_ BitVec 64) (_ BitVec 8))) (o (_ BitVec 64))) Bool
  (= (mm3_fold a o #x0000000000000000) #x00000000000000000000000000000000))
(define-fun mm3_fold_step_ax ((a (Array (_ BitVec 64) (_ BitVec 8))) (o (_ BitVec 64)) (i (_ BitVec 64))) Bool
  (=> (bvsge i #x0000000000000000)
      (= (mm3_fold a o (bvadd i #x0000000000000001))
         (mm3_step (mm3_fold a o i) (le64 a o (bvmul i #x0000000000000010)) (le64 a o (bvadd (bvmul i #x0000000000000010) #x0000000000000008))))))
(define-fun mm3_fold1 ((a (Array (_ BitVec 64) (_ BitVec 8))) (o (_ BitVec 64)) (i (_ BitVec 64))) (_ BitVec 64) ((_ extract 127 64) (mm3_fold a o i)))
(define-fun mm3_fold2 ((a (Array (_ BitVec 64) (_ BitVec 8))) (o (_ BitVec 64)) (i (_ BitVec 64))) (_ BitVec 64) ((_ extract 63 0) (mm3_fold a o i)))
; tail byte j (0..14) of the tail starting at absolute offset t, contributing iff j < rem
(define-fun mm3_tb ((a (Array (_ BitVec 64) (_ BitVec 8))) (t (_ BitVec 64)) (j (_ BitVec 64)) (rem (_ BitVec 64)) (sh (_ BitVec 64))) (_ BitVec 64)
  (ite (bvult j rem) (bvshl ((_ sign_extend 56) (select a (bvadd t j))) sh) #x0000000000000000))
(define-fun mm3_tailk1 ((a (Array (_ BitVec 64) (_ BitVec 8))) (t (_ BitVec 64)) (rem (_ BitVec 64))) (_ BitVec 64)
  (bvxor (mm3_tb a t #x0000000000000000 rem #x0000000000000000) (mm3_tb a t #x0000000000000001 rem #x0000000000000008)
         (mm3_tb a t #x0000000000000002 rem #x0000000000000010) (mm3_tb a t #x0000000000000003 rem #x0000000000000018)
         (mm3_tb a t #x0000000000000004 rem #x0000000000000020) (mm3_tb a t #x0000000000000005 rem #x0000000000000028)
         (mm3_tb a t #x0000000000000006 rem #x0000000000000030) (mm3_tb a t #x0000000000000007 rem #x0000000000000038)))
(define-fun mm3_tailk2 ((a (Array (_ BitVec 64) (_ BitVec 8))) (t (_ BitVec 64)) (rem (_ BitVec 64))) (_ BitVec 64)
  (bvxor (mm3_tb a t #x0000000000000008 rem #x0000000000000000) (mm3_tb a t #x0000000000000009 rem #x0000000000000008)
         (mm3_tb a t #x000000000000000a rem #x0000000000000010) (mm3_tb a t #x000000000000000b rem #x0000000000000018)
         (mm3_tb a t #x000000000000000c rem #x0000000000000020) (mm3_tb a t #x000000000000000d rem #x0000000000000028)
         (mm3_tb a t #x000000000000000e rem #x0000000000000030)))
; mm3_h1 a o n : the token of the n bytes a[o..o+n)
(define-fun mm3_h1 ((a (Array (_ BitVec 64) (_ BitVec 8))) (o (_ BitVec 64)) (n (_ BitVec 64))) (_ BitVec 64)
  (let ((nb (bvlshr n #x0000000000000004)) (rem (bvand n #x000000000000000f)))
  (let ((h (mm3_fold a o nb)) (t (bvadd o (bvmul nb #x0000000000000010))))
  (let ((h1 ((_ extract 127 64) h)) (h2 ((_ extract 63 0) h)))
  (let ((h2a (ite (bvugt rem #x0000000000000008) (bvxor h2 (mm3_mixk2 (mm3_tailk2 a t rem))) h2))
        (h1a (ite (bvugt rem #x0000000000000000) (bvxor h1 (mm3_mixk1 (mm3_tailk1 a t rem))) h1)))
  (let ((h1b (bvxor h1a n)) (h2b (bvxor h2a n)))
  (let ((h1c (bvadd h1b h2b)))
  (let ((h2c (bvadd h2b h1c)))
  (let ((h1d (mm3_fmix h1c)) (h2d (mm3_fmix h2c)))
    (bvadd h1d h2d))))))))))

;; block hex
; sig hexdig(uint8) uint8
; sig hexval(uint8) uint8
; sig ishex(uint8) bool
; lower-case hexadecimal digit of a nibble value 0..15
(define-fun hexdig ((n (_ BitVec 8))) (_ BitVec 8) (ite (bvult n #x0a) (bvadd #x30 n) (bvadd #x57 n)))
(define-fun ishex ((c (_ BitVec 8))) Bool
  (or (and (bvuge c #x30) (bvule c #x39)) (and (bvuge c #x61) (bvule c #x66)) (and (bvuge c #x41) (bvule c #x46))))
(define-fun hexval ((c (_ BitVec 8))) (_ BitVec 8)
  (ite (and (bvuge c #x30) (bvule c #x39)) (bvsub c #x30)
  (ite (and (bvuge c #x61) (bvule c #x66)) (bvsub c #x57)
  (ite (and (bvuge c #x41) (bvule c #x46)) (bvsub c #x37) #xff))))

;; block uuid
; RFC 4122 §4.1.2 layout of a version-1 UUID built from a 60-bit timestamp t,
; a 14-bit clock sequence and a 6-byte node; §3 string form 8-4-4-4-12.
; sig uuid_v1_byte(int64, uint32, int) uint8
; sig uuid_ts(bytes) int64
; sig uuid_clock(bytes) uint32
; sig uuid_off(int) int
; sig uuid_version(bytes) int
(define-fun uuid_v1_byte ((t (_ BitVec 64)) (clock (_ BitVec 32)) (i (_ BitVec 64))) (_ BitVec 8)
  (ite (= i #x0000000000000000) ((_ extract 31 24) t)
  (ite (= i #x0000000000000001) ((_ extract 23 16) t)
  (ite (= i #x0000000000000002) ((_ extract 15 8) t)
  (ite (= i #x0000000000000003) ((_ extract 7 0) t)
  (ite (= i #x0000000000000004) ((_ extract 47 40) t)
  (ite (= i #x0000000000000005) ((_ extract 39 32) t)
  (ite (= i #x0000000000000006) (concat #x1 ((_ extract 59 56) t))
  (ite (= i #x0000000000000007) ((_ extract 55 48) t)
  (ite (= i #x0000000000000008) (concat #b10 ((_ extract 13 8) clock))
       ((_ extract 7 0) clock)))))))))))
(define-fun uuid_ts ((a (Array (_ BitVec 64) (_ BitVec 8))) (o (_ BitVec 64))) (_ BitVec 64)
  (concat #x0 ((_ extract 3 0) (select a (bvadd o #x0000000000000006))) (select a (bvadd o #x0000000000000007))
          (select a (bvadd o #x0000000000000004)) (select a (bvadd o #x0000000000000005))
          (select a o) (select a (bvadd o #x0000000000000001)) (select a (bvadd o #x0000000000000002)) (select a (bvadd o #x0000000000000003))))
(define-fun uuid_clock ((a (Array (_ BitVec 64) (_ BitVec 8))) (o (_ BitVec 64))) (_ BitVec 32)
  (concat #x0000 #b00 ((_ extract 5 0) (select a (bvadd o #x0000000000000008))) (select a (bvadd o #x0000000000000009))))
(define-fun uuid_version ((a (Array (_ BitVec 64) (_ BitVec 8))) (o (_ BitVec 64))) (_ BitVec 64)
  (concat #x00000000000000 #x0 ((_ extract 7 4) (select a (bvadd o #x0000000000000006)))))
; sig uuid_hy(int) int
; number of hyphens strictly before position p of the 36-character form
(define-fun uuid_hy ((p (_ BitVec 64))) (_ BitVec 64)
  (ite (bvsle p #x0000000000000008) #x0000000000000000
  (ite (bvsle p #x000000000000000d) #x0000000000000001
  (ite (bvsle p #x0000000000000012) #x0000000000000002
  (ite (bvsle p #x0000000000000017) #x0000000000000003 #x0000000000000004)))))
; position of the first hex digit of byte i in the 36-character form
(define-fun uuid_off ((i (_ BitVec 64))) (_ BitVec 64)
  (bvadd (bvmul i #x0000000000000002)
    (ite (bvult i #x0000000000000004) #x0000000000000000
    (ite (bvult i #x0000000000000006) #x0000000000000001
    (ite (bvult i #x0000000000000008) #x0000000000000002
    (ite (bvult i #x000000000000000a) #x0000000000000003 #x0000000000000004))))))

;; block hexcount
; number of hexadecimal digits among the first p bytes of a byte sequence,
; defined by recursion on p (instances via `use`):
;   axiom hexcount_base_ax : forall a o.   hexcount(a,o,0) = 0
;   axiom hexcount_step_ax : forall a o p. p >= 0 => hexcount(a,o,p+1) = hexcount(a,o,p) + [ishex(a[o+p])]
; sig hexcount(bytes, int) int
; sig hexcount_base_ax(bytes) bool
; sig hexcount_step_ax(bytes, int) bool
(declare-fun hexcount ((Array (_ BitVec 64) (_ BitVec 8)) (_ BitVec 64) (_ BitVec 64)) (_ BitVec 64))
(define-fun hexcount_base_ax ((a (Array (_ BitVec 64) (_ BitVec 8))) (o (_ BitVec 64))) Bool
  (= (hexcount a o #x0000000000000000) #x0000000000000000))
(define-fun hexcount_step_ax ((a (Array (_ BitVec 64) (_ BitVec 8))) (o (_ BitVec 64)) (p (_ BitVec 64))) Bool
  (=> (bvsge p #x0000000000000000)
      (= (hexcount a o (bvadd p #x0000000000000001))
         (bvadd (hexcount a o p) (ite (ishex (select a (bvadd o p))) #x0000000000000001 #x0000000000000000)))))

;; block varint
; CQL varint (spec §6.24): two's-complement big-endian of MINIMAL length.
; varint_len(v): the least n in 1..8 with -2^(8n-1) <= v < 2^(8n-1);
; varint_val(b,n): the sign-extended value of the n (1..8) bytes; be_uval: the unsigned value of n (0..8) bytes.
; sig varint_len(int64) int
; sig varint_val(bytes, int) int64
; sig be_uval(bytes, int) uint64
(define-fun varint_len ((v (_ BitVec 64))) (_ BitVec 64) (ite (and (bvsle #xffffffffffffff80 v) (bvsle v #x000000000000007f)) #x0000000000000001 (ite (and (bvsle #xffffffffffff8000 v) (bvsle v #x0000000000007fff)) #x0000000000000002 (ite (and (bvsle #xffffffffff800000 v) (bvsle v #x00000000007fffff)) #x0000000000000003 (ite (and (bvsle #xffffffff80000000 v) (bvsle v #x000000007fffffff)) #x0000000000000004 (ite (and (bvsle #xffffff8000000000 v) (bvsle v #x0000007fffffffff)) #x0000000000000005 (ite (and (bvsle #xffff800000000000 v) (bvsle v #x00007fffffffffff)) #x0000000000000006 (ite (and (bvsle #xff80000000000000 v) (bvsle v #x007fffffffffffff)) #x0000000000000007 #x0000000000000008))))))))
(define-fun varint_val ((a (Array (_ BitVec 64) (_ BitVec 8))) (o (_ BitVec 64)) (n (_ BitVec 64))) (_ BitVec 64) (ite (= n #x0000000000000001) ((_ sign_extend 56) (select a (bvadd o #x0000000000000000))) (ite (= n #x0000000000000002) ((_ sign_extend 48) (concat (select a (bvadd o #x0000000000000000)) (select a (bvadd o #x0000000000000001)))) (ite (= n #x0000000000000003) ((_ sign_extend 40) (concat (select a (bvadd o #x0000000000000000)) (select a (bvadd o #x0000000000000001)) (select a (bvadd o #x0000000000000002)))) (ite (= n #x0000000000000004) ((_ sign_extend 32) (concat (select a (bvadd o #x0000000000000000)) (select a (bvadd o #x0000000000000001)) (select a (bvadd o #x0000000000000002)) (select a (bvadd o #x0000000000000003)))) (ite (= n #x0000000000000005) ((_ sign_extend 24) (concat (select a (bvadd o #x0000000000000000)) (select a (bvadd o #x0000000000000001)) (select a (bvadd o #x0000000000000002)) (select a (bvadd o #x0000000000000003)) (select a (bvadd o #x0000000000000004)))) (ite (= n #x0000000000000006) ((_ sign_extend 16) (concat (select a (bvadd o #x0000000000000000)) (select a (bvadd o #x0000000000000001)) (select a (bvadd o #x0000000000000002)) (select a (bvadd o #x0000000000000003)) (select a (bvadd o #x0000000000000004)) (select a (bvadd o #x0000000000000005)))) (ite (= n #x0000000000000007) ((_ sign_extend 8) (concat (select a (bvadd o #x0000000000000000)) (select a (bvadd o #x0000000000000001)) (select a (bvadd o #x0000000000000002)) (select a (bvadd o #x0000000000000003)) (select a (bvadd o #x0000000000000004)) (select a (bvadd o #x0000000000000005)) (select a (bvadd o #x0000000000000006)))) (ite (= n #x0000000000000008) (concat (select a (bvadd o #x0000000000000000)) (select a (bvadd o #x0000000000000001)) (select a (bvadd o #x0000000000000002)) (select a (bvadd o #x0000000000000003)) (select a (bvadd o #x0000000000000004)) (select a (bvadd o #x0000000000000005)) (select a (bvadd o #x0000000000000006)) (select a (bvadd o #x0000000000000007))) #x0000000000000000)))))))))
(define-fun be_uval ((a (Array (_ BitVec 64) (_ BitVec 8))) (o (_ BitVec 64)) (n (_ BitVec 64))) (_ BitVec 64) (ite (= n #x0000000000000001) ((_ zero_extend 56) (select a (bvadd o #x0000000000000000))) (ite (= n #x0000000000000002) ((_ zero_extend 48) (concat (select a (bvadd o #x0000000000000000)) (select a (bvadd o #x0000000000000001)))) (ite (= n #x0000000000000003) ((_ zero_extend 40) (concat (select a (bvadd o #x0000000000000000)) (select a (bvadd o #x0000000000000001)) (select a (bvadd o #x0000000000000002)))) (ite (= n #x0000000000000004) ((_ zero_extend 32) (concat (select a (bvadd o #x0000000000000000)) (select a (bvadd o #x0000000000000001)) (select a (bvadd o #x0000000000000002)) (select a (bvadd o #x0000000000000003)))) (ite (= n #x0000000000000005) ((_ zero_extend 24) (concat (select a (bvadd o #x0000000000000000)) (select a (bvadd o #x0000000000000001)) (select a (bvadd o #x0000000000000002)) (select a (bvadd o #x0000000000000003)) (select a (bvadd o #x0000000000000004)))) (ite (= n #x0000000000000006) ((_ zero_extend 16) (concat (select a (bvadd o #x0000000000000000)) (select a (bvadd o #x0000000000000001)) (select a (bvadd o #x0000000000000002)) (select a (bvadd o #x0000000000000003)) (select a (bvadd o #x0000000000000004)) (select a (bvadd o #x0000000000000005)))) (ite (= n #x0000000000000007) ((_ zero_extend 8) (concat (select a (bvadd o #x0000000000000000)) (select a (bvadd o #x0000000000000001)) (select a (bvadd o #x0000000000000002)) (select a (bvadd o #x0000000000000003)) (select a (bvadd o #x0000000000000004)) (select a (bvadd o #x0000000000000005)) (select a (bvadd o #x0000000000000006)))) (ite (= n #x0000000000000008) (concat (select a (bvadd o #x0000000000000000)) (select a (bvadd o #x0000000000000001)) (select a (bvadd o #x0000000000000002)) (select a (bvadd o #x0000000000000003)) (select a (bvadd o #x0000000000000004)) (select a (bvadd o #x0000000000000005)) (select a (bvadd o #x0000000000000006)) (select a (bvadd o #x0000000000000007))) #x0000000000000000)))))))))

;; block vint
; Cassandra VIntCoding (spec §6 "vint"/[duration]): the number of leading 1 bits of the
; first byte is the number of extra bytes e; the value is the remaining bits of the first
; byte followed by the e extra bytes, big endian; signed values are zig-zag encoded.
; vint_size(u): 1 + floor((bitlen(u)-1)/7) capped at 9, i.e. the least size that holds u.
; sig vint_extra(uint8) int
; sig vint_uval(bytes, int) uint64
; sig vint_size(uint64) int
; sig zigzag(int64) uint64
; sig unzigzag(uint64) int64
(define-fun vint_extra ((b (_ BitVec 8))) (_ BitVec 64) (ite (= (bvand b #x80) #x00) #x0000000000000000 (ite (= (bvand b #xc0) #x80) #x0000000000000001 (ite (= (bvand b #xe0) #xc0) #x0000000000000002 (ite (= (bvand b #xf0) #xe0) #x0000000000000003 (ite (= (bvand b #xf8) #xf0) #x0000000000000004 (ite (= (bvand b #xfc) #xf8) #x0000000000000005 (ite (= (bvand b #xfe) #xfc) #x0000000000000006 (ite (= (bvand b #xff) #xfe) #x0000000000000007 #x0000000000000008)))))))))
(define-fun vint_uval ((a (Array (_ BitVec 64) (_ BitVec 8))) (o (_ BitVec 64)) (i (_ BitVec 64))) (_ BitVec 64)
  (let ((b (select a (bvadd o i))))
  (let ((e (vint_extra b)))
    (bvor (bvshl ((_ zero_extend 56) (bvand b (bvlshr #xff ((_ extract 7 0) e)))) (bvmul e #x0000000000000008))
          (be_uval a (bvadd o i #x0000000000000001) (ite (= e #x0000000000000008) #x0000000000000008 e))))))
(define-fun vint_size ((u (_ BitVec 64))) (_ BitVec 64) (ite (bvult u #x0000000000000080) #x0000000000000001 (ite (bvult u #x0000000000004000) #x0000000000000002 (ite (bvult u #x0000000000200000) #x0000000000000003 (ite (bvult u #x0000000010000000) #x0000000000000004 (ite (bvult u #x0000000800000000) #x0000000000000005 (ite (bvult u #x0000040000000000) #x0000000000000006 (ite (bvult u #x0002000000000000) #x0000000000000007 (ite (bvult u #x0100000000000000) #x0000000000000008 #x0000000000000009)))))))))
(define-fun zigzag ((n (_ BitVec 64))) (_ BitVec 64) (bvxor (bvashr n #x000000000000003f) (bvshl n #x0000000000000001)))
(define-fun unzigzag ((u (_ BitVec 64))) (_ BitVec 64) (bvxor (bvlshr u #x0000000000000001) (bvneg (bvand u #x0000000000000001))))

;; block date
; CQL date (spec §6.5): unsigned days since the epoch centred on 2^31, i.e. 2^31 + floor(ms / 86400000)
; sig cql_date(int64) uint32
(define-fun cql_date ((ms (_ BitVec 64))) (_ BitVec 32)
  (let ((q (bvsdiv ms #x0000000005265c00)) (r (bvsrem ms #x0000000005265c00)))
  (let ((fl (ite (bvslt r #x0000000000000000) (bvsub q #x0000000000000001) q)))
    ((_ extract 31 0) (bvadd fl #x0000000080000000)))))

