; Lemma over the contract of roundRobbin$1 (policies.go): within one tier of `size` hosts the
; iterator visits the positions (shift+o) mod size for o = 1..size (postcondition ensures#4 gives
; the position, the progress postcondition gives o strictly increasing). The positions of two
; different visits differ, so no host of a tier is offered twice; an injective map from the
; `size` values of o into the `size` indices is onto (pigeonhole), so every host of the tier is
; visited - offered if it is up.

;; lemma C11.rotation_injective props C11 mode int
(declare-const shift Int)
(declare-const size Int)
(declare-const o1 Int)
(declare-const o2 Int)
(assert (and (>= shift 0) (> size 0) (<= 1 o1) (< o1 o2) (<= o2 size)))
(assert (= (mod (+ shift o1) size) (mod (+ shift o2) size)))

;; lemma C11.rotation_in_range props C11 mode int
(declare-const shift Int)
(declare-const size Int)
(declare-const o Int)
(assert (and (>= shift 0) (> size 0) (<= 1 o) (<= o size)))
(assert (not (and (<= 0 (mod (+ shift o) size)) (< (mod (+ shift o) size) size))))

;; lemma C11.successive_picks_rotate props C11 mode int
; the first position probed by pick n+1 is the one after the first position of pick n
(declare-const c Int)
(declare-const size Int)
(assert (and (>= c 0) (> size 0)))
(assert (not (= (mod (+ (+ c 1) 1) size) (mod (+ (mod (+ c 1) size) 1) size))))
