; Lemmas over the contracts of uuid.go (spec functions only; no code).
; Each lemma is a closed script fragment ending in (assert (not GOAL)).

;; lemma C19.hex_roundtrip props C19 mode bv needs hex
; every digit printed by String is a hex digit and parses back to its nibble:
; with String.ensures and ParseUUID[canon].ensures this gives ParseUUID(u.String()) == u
(declare-const n (_ BitVec 8))
(assert (bvult n #x10))
(assert (not (and (ishex (hexdig n)) (= (hexval (hexdig n)) n))))

;; lemma C19.byte_from_nibbles props C19 mode bv needs hex
(declare-const b (_ BitVec 8))
(assert (not (= (bvor (bvshl (hexval (hexdig (bvlshr b #x04))) #x04) (hexval (hexdig (bvand b #x0f)))) b)))

;; lemma C19.timestamp_roundtrip props C19 mode bv needs uuid
; Timestamp(TimeUUIDWith(t, clock, node)) == t mod 2^60, version 1, RFC 4122 variant, clock mod 2^14
(declare-const t (_ BitVec 64))
(declare-const c (_ BitVec 32))
(declare-const u (Array (_ BitVec 64) (_ BitVec 8)))
(assert (= (select u #x0000000000000000) (uuid_v1_byte t c #x0000000000000000)))
(assert (= (select u #x0000000000000001) (uuid_v1_byte t c #x0000000000000001)))
(assert (= (select u #x0000000000000002) (uuid_v1_byte t c #x0000000000000002)))
(assert (= (select u #x0000000000000003) (uuid_v1_byte t c #x0000000000000003)))
(assert (= (select u #x0000000000000004) (uuid_v1_byte t c #x0000000000000004)))
(assert (= (select u #x0000000000000005) (uuid_v1_byte t c #x0000000000000005)))
(assert (= (select u #x0000000000000006) (uuid_v1_byte t c #x0000000000000006)))
(assert (= (select u #x0000000000000007) (uuid_v1_byte t c #x0000000000000007)))
(assert (= (select u #x0000000000000008) (uuid_v1_byte t c #x0000000000000008)))
(assert (= (select u #x0000000000000009) (uuid_v1_byte t c #x0000000000000009)))
(assert (not (and (= (uuid_ts u #x0000000000000000) (bvand t #x0fffffffffffffff))
                  (= (uuid_version u #x0000000000000000) #x0000000000000001)
                  (= (bvand (select u #x0000000000000008) #xc0) #x80)
                  (= (uuid_clock u #x0000000000000000) (bvand c #x00003fff)))))

;; lemma C19.v1_injective props C19 mode bv needs uuid
; distinct (t mod 2^60, clock mod 2^14) give distinct UUIDs (node equal or not)
(declare-const t1 (_ BitVec 64))
(declare-const c1 (_ BitVec 32))
(declare-const t2 (_ BitVec 64))
(declare-const c2 (_ BitVec 32))
(assert (= (uuid_v1_byte t1 c1 #x0000000000000000) (uuid_v1_byte t2 c2 #x0000000000000000)))
(assert (= (uuid_v1_byte t1 c1 #x0000000000000001) (uuid_v1_byte t2 c2 #x0000000000000001)))
(assert (= (uuid_v1_byte t1 c1 #x0000000000000002) (uuid_v1_byte t2 c2 #x0000000000000002)))
(assert (= (uuid_v1_byte t1 c1 #x0000000000000003) (uuid_v1_byte t2 c2 #x0000000000000003)))
(assert (= (uuid_v1_byte t1 c1 #x0000000000000004) (uuid_v1_byte t2 c2 #x0000000000000004)))
(assert (= (uuid_v1_byte t1 c1 #x0000000000000005) (uuid_v1_byte t2 c2 #x0000000000000005)))
(assert (= (uuid_v1_byte t1 c1 #x0000000000000006) (uuid_v1_byte t2 c2 #x0000000000000006)))
(assert (= (uuid_v1_byte t1 c1 #x0000000000000007) (uuid_v1_byte t2 c2 #x0000000000000007)))
(assert (= (uuid_v1_byte t1 c1 #x0000000000000008) (uuid_v1_byte t2 c2 #x0000000000000008)))
(assert (= (uuid_v1_byte t1 c1 #x0000000000000009) (uuid_v1_byte t2 c2 #x0000000000000009)))
(assert (not (and (= (bvand t1 #x0fffffffffffffff) (bvand t2 #x0fffffffffffffff)) (= (bvand c1 #x00003fff) (bvand c2 #x00003fff)))))

;; lemma C19.minmax_bound props C19 mode bv needs uuid
; Cassandra's TimeUUIDType order: timestamp first, then the low 8 bytes compared
; as SIGNED bytes, lexicographically. For every RFC-4122-variant version-1 UUID u
; with timestamp t: Min(t) <= u <= Max(t). Min/Max bytes come from the contract of
; TimeUUIDWith with clock 0x8080 / 0x7f7f and node 6x0x80 / 6x0x7f.
(declare-const t (_ BitVec 64))
(declare-const u (Array (_ BitVec 64) (_ BitVec 8)))
(declare-const mn (Array (_ BitVec 64) (_ BitVec 8)))
(declare-const mx (Array (_ BitVec 64) (_ BitVec 8)))
(define-fun sb ((a (Array (_ BitVec 64) (_ BitVec 8))) (i (_ BitVec 64))) (_ BitVec 8) (bvxor (select a i) #x80))
; signed-byte lexicographic order on bytes 8..15 == unsigned order after flipping the sign bit
(define-fun lo64 ((a (Array (_ BitVec 64) (_ BitVec 8)))) (_ BitVec 64)
  (concat (sb a #x0000000000000008) (sb a #x0000000000000009) (sb a #x000000000000000a) (sb a #x000000000000000b)
          (sb a #x000000000000000c) (sb a #x000000000000000d) (sb a #x000000000000000e) (sb a #x000000000000000f)))
(assert (= (bvand (select u #x0000000000000008) #xc0) #x80))
(assert (= (select mn #x0000000000000008) (uuid_v1_byte t #x00008080 #x0000000000000008)))
(assert (= (select mn #x0000000000000009) (uuid_v1_byte t #x00008080 #x0000000000000009)))
(assert (= (select mx #x0000000000000008) (uuid_v1_byte t #x00007f7f #x0000000000000008)))
(assert (= (select mx #x0000000000000009) (uuid_v1_byte t #x00007f7f #x0000000000000009)))
(assert (and (= (select mn #x000000000000000a) #x80) (= (select mn #x000000000000000b) #x80) (= (select mn #x000000000000000c) #x80)
             (= (select mn #x000000000000000d) #x80) (= (select mn #x000000000000000e) #x80) (= (select mn #x000000000000000f) #x80)))
(assert (and (= (select mx #x000000000000000a) #x7f) (= (select mx #x000000000000000b) #x7f) (= (select mx #x000000000000000c) #x7f)
             (= (select mx #x000000000000000d) #x7f) (= (select mx #x000000000000000e) #x7f) (= (select mx #x000000000000000f) #x7f)))
(assert (not (and (bvule (lo64 mn) (lo64 u)) (bvule (lo64 u) (lo64 mx)))))
