; Round-trip lemmas over the codec contracts (spec functions only).
; marshalX ensures: bytes == trunc_w(v) (and v fits w); unmarshalX ensures: dest == conv(sext_w(bytes)).
; Together with these lemmas: Unmarshal(Marshal(v)) == v for every integer column width.

;; lemma C02.int_roundtrip_32 props C02 C12 mode bv
(declare-const v (_ BitVec 64))
(assert (= ((_ sign_extend 32) ((_ extract 31 0) v)) v))
; the value decoded from the encoded bytes is the value itself
(assert (not (= ((_ sign_extend 32) ((_ extract 31 0) ((_ sign_extend 32) ((_ extract 31 0) v)))) v)))

;; lemma C02.int_roundtrip_16 props C02 C12 mode bv
(declare-const v (_ BitVec 64))
(assert (= ((_ sign_extend 48) ((_ extract 15 0) v)) v))
(assert (not (= ((_ sign_extend 48) ((_ extract 15 0) ((_ sign_extend 48) ((_ extract 15 0) v)))) v)))

;; lemma C02.int_roundtrip_8 props C02 C12 mode bv
(declare-const v (_ BitVec 64))
(assert (= ((_ sign_extend 56) ((_ extract 7 0) v)) v))
(assert (not (= ((_ sign_extend 56) ((_ extract 7 0) ((_ sign_extend 56) ((_ extract 7 0) v)))) v)))

;; lemma C02.unsigned_roundtrip_32 props C02 C12 mode bv
; gocql's convention for unsigned Go values: stored as the bit pattern of the column width, read back masked
(declare-const v (_ BitVec 64))
(assert (= ((_ zero_extend 32) ((_ extract 31 0) v)) v))
(assert (not (= (bvand ((_ sign_extend 32) ((_ extract 31 0) v)) #x00000000ffffffff) v)))

;; lemma C02.zigzag_inverse props C02 C12 mode bv needs vint
(declare-const n (_ BitVec 64))
(assert (not (= (unzigzag (zigzag n)) n)))

;; lemma C02.varint_minimal_roundtrip props C02 C12 mode bv needs varint
; a value that fits n bytes (n = varint_len(v)) is recovered by sign extension of its n low bytes
(declare-const v (_ BitVec 64))
(declare-const a (Array (_ BitVec 64) (_ BitVec 8)))
(define-fun n () (_ BitVec 64) (varint_len v))
; the n bytes are the n low-order bytes of v, big endian
(assert (forall ((j (_ BitVec 64))) (=> (bvult j n) (= (select a j) ((_ extract 7 0) (bvlshr v (bvmul #x0000000000000008 (bvsub (bvsub n j) #x0000000000000001))))))))
(assert (not (= (varint_val a #x0000000000000000 n) v)))
